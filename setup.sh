#!/bin/bash
# Build the verification framework from files on disk only (offline).
# Idempotent.  Creates /verif/.venv (python 3.12 + numpy/jsonschema/networkx from the
# offline wheelhouse), builds the native 32-bit CPU oracle, and self-tests the oracles.
set -e
cd "$(dirname "$0")"
V=/verif/.venv
if [ ! -x $V/bin/python ] || ! $V/bin/python -c 'import numpy, jsonschema, networkx' 2>/dev/null; then
    rm -rf $V
    /venv/bin/python -m venv $V
    PIP_NO_INDEX=1 $V/bin/pip install -q --no-index --find-links /opt/veriftools/wheels numpy jsonschema networkx
fi
mkdir -p evidence replays build
if [ -f native/runner.c ]; then
    gcc -m32 -O1 -nostdlib -ffreestanding -static -fno-stack-protector -fno-pie -no-pie \
        -o build/runner native/runner.c
fi
$V/bin/python -m mc.selftest
echo "setup ok"
