#!/usr/bin/env python3
"""Hand tool: group the replays of <PROP> that are neither listed nor derivable, by coarse site class. usage: kf_group.py C03"""
import json, sys, re, glob, collections
pid = sys.argv[1]
sys.argv = ['x', pid]
src = open('/verif/tools/kf_derive.py').read().split("derived, rest = [], []")[0]
exec(src)
c = collections.Counter()
ex = {}
for f in sorted(glob.glob('/verif/replays/%s/*.json' % pid)):
    r = json.load(open(f))
    sig = r['signature']
    if known(sig) or any(known(s2) for s2, a in reductions(sig)):
        continue
    m = re.search(r'map=(\S+) op=(\S+)', sig)
    pf = re.search(r'pfx=(\S+)', sig)
    sg = re.search(r' (seg(=\w+)?)( |$)', sig)
    rest = re.sub(r'^.*?mod=\S+', '', sig)
    rest = re.sub(r'\([^)]*\)', '()', rest)
    rest = re.sub(r' seg(=\w+)?', '', rest)
    k = ((m.group(1) if m.group(1) != '1' else '1') if m else sig[:30], pf.group(1) if pf else '-', sg.group(1) if sg else '', rest.strip())
    c[k] += 1
    ex.setdefault(k, sig + ' | ' + r['what'][:140])
for k, v in c.most_common(int(sys.argv[2]) if len(sys.argv) > 2 else 40):
    print(v, k, '\n      ', ex[k])
