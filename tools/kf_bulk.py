#!/usr/bin/env python3
"""Hand tool (never run by a check): add every replay of <PROP> whose signature matches <regex> and is not yet listed,
with one explanation.  usage: kf_bulk.py <PROP> '<signature regex>' '<explanation>'"""
import json, sys, re, glob
pid, rx, expl = sys.argv[1], re.compile(sys.argv[2]), sys.argv[3]
K = json.load(open('/verif/known_findings.json'))
have = {f.get('signature') for f in K['findings'] if f['property'] == pid}
regs = [re.compile(f['signature_regex']) for f in K['findings'] if f['property'] == pid and 'signature_regex' in f]
n = 0
for p in sorted(glob.glob('/verif/replays/%s/*.json' % pid)):
    r = json.load(open(p))
    s = r['signature']
    if s in have or any(x.fullmatch(s) for x in regs) or not rx.search(s):
        continue
    K['findings'].append({'property': pid, 'signature': s, 'what': (r['what'][:300] + ' -- ' + expl).strip(), 'witness': r['witness'], 'explanation': expl})
    have.add(s)
    n += 1
K['findings'].sort(key=lambda f: (f['property'], f.get('signature') or f.get('signature_regex')))
json.dump(K, open('/verif/known_findings.json', 'w'), indent=1)
print('added', n, 'total', len(K['findings']))
