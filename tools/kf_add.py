#!/usr/bin/env python3
"""Hand tool (never run by a check): add triaged genuine defects to known_findings.json.
usage: kf_add.py <property> <explanation> <replay.json>...   (explanation is appended to each 'what')"""
import json, sys
pid, expl = sys.argv[1], sys.argv[2]
k = json.load(open('/verif/known_findings.json'))
have = {(f['property'], f.get('signature')) for f in k['findings']}
for p in sys.argv[3:]:
    r = json.load(open(p))
    assert r['property'] == pid
    if (pid, r['signature']) in have:
        continue
    k['findings'].append({'property': pid, 'signature': r['signature'],
                          'what': (r['what'][:300] + ' -- ' + expl).strip(), 'witness': r['witness'], 'explanation': expl})
k['findings'].sort(key=lambda f: (f['property'], f.get('signature') or f.get('signature_regex')))
json.dump(k, open('/verif/known_findings.json', 'w'), indent=1)
print(len(k['findings']), 'findings')
