#!/bin/bash
# usage: tools/runall.sh <tier> <seed>...   -- runs every check in a fresh process, prints one line per check
tier=$1; shift
cd "$(dirname "$0")/.."
for seed in "$@"; do
  for i in 01 02 03 04 05 06 07 08 09 10 11 12 13 14 15 16 17 18 19; do
    t0=$(date +%s)
    out=$(VERIF_SEED=$seed ./check C$i --tier $tier 2>&1)
    rc=$?
    t1=$(date +%s)
    echo "seed=$seed C$i rc=$rc $((t1-t0))s $(echo "$out" | grep "^C$i tier" | cut -c1-160)"
    if [ $rc -ne 0 ]; then echo "$out" | grep -A2 "VIOLATION\|HARNESS" | head -12; fi
  done
done
