#!/bin/bash
# hand tool: confirm + test the wave-5 changes of one property: wave5.sh C16 [extra seedtest args]
P=$1; shift
for k in 1 2; do
  echo "== $P wave5 #$k -> seeded/$P-$((k+9))"
  python3 /verif/tools/seedtest.py $P $k --src /tmp/wtout5 --as $((k+9)) "$@" 2>&1 | grep -v '^KNOWN' | tail -6
done
