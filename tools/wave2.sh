#!/bin/bash
# hand tool: confirm + test the wave-2 changes of one property: wave2.sh C16 [extra seedtest args]
P=$1; shift
for k in 1 2; do
  echo "== $P wave2 #$k -> seeded/$P-$((k+3))"
  python3 /verif/tools/seedtest.py $P $k --src /tmp/wtout2 --as $((k+3)) "$@" 2>&1 | grep -v '^KNOWN' | tail -6
done
