#!/usr/bin/env python3
"""Hand tool (never run by a check): triage aid for the thorough tier's additional prefix sets.
A new signature whose only difference from an already listed finding is the prefix set (pfx=66+seg vs pfx=66,
pfx=66.67 vs pfx=66 or pfx=67, ...) is the listed defect reached through another prefix combination; with --apply it
is added as an exact finding that refers to the listed one.  Everything else is printed for manual triage.
usage: kf_derive.py <PROP> [--apply]"""
import json, sys, re, glob, os
pid = sys.argv[1]
apply_ = '--apply' in sys.argv
K = json.load(open('/verif/known_findings.json'))
exact = {f['signature']: f for f in K['findings'] if f['property'] == pid and 'signature' in f}
regs = [(re.compile(f['signature_regex']), f) for f in K['findings'] if f['property'] == pid and 'signature_regex' in f]


def known(sig):
    if sig in exact:
        return exact[sig]
    for r, f in regs:
        if r.fullmatch(sig):
            return f
    return None


def reductions(sig):
    # a segment marker alone: the listed defect of the plain site reached under a segment override
    ms = re.search(r' seg(=ds|=ss)?(?= |$)', sig)
    if ms:
        if ms.group(1):          # ds/ss override: first the same site under any other segment override
            yield sig[:ms.start()] + ' seg' + sig[ms.end():], 'other segment'
        plain = sig[:ms.start()] + sig[ms.end():]
        yield plain, 'no segment'
        for s2, a in reductions(plain):
            yield s2, a
    mr = re.match(r'rewrite=([\w\-<>]+)\+([\w\-<>]+) ', sig)     # C19 pairs of rewrites: a pair containing a listed single rewrite
    if mr:
        for single in mr.groups():
            yield 'rewrite=%s ' % single + sig[mr.end():], single
    mo = re.search(r' o16/a16(?= )', sig)          # C11 names the decoded operand/address size instead of the prefixes
    if mo:
        for alt in (' o16/a32', ' o32/a16', ' o32/a32'):
            yield sig[:mo.start()] + alt + sig[mo.end():], alt.strip()
    m = re.search(r' pfx=(\S+)', sig)
    if not m:
        return
    p = m.group(1)
    core_ = p.split('+')[0]
    alts = []
    if '+' in p:
        alts.append(core_)
    parts = core_.split('.')
    if len(parts) > 1:
        alts += parts
        for i in range(len(parts)):
            alts.append('.'.join(parts[:i] + parts[i + 1:]))
    alts.append(None)
    for a in alts:
        yield (sig[:m.start()] + (' pfx=' + a if a else '') + sig[m.end():]), a


derived, rest = [], []
for f in sorted(glob.glob('/verif/replays/%s/*.json' % pid)):
    r = json.load(open(f))
    sig = r['signature']
    if known(sig):
        continue
    for s2, a in reductions(sig):
        k = known(s2)
        if k:
            derived.append((r, s2, k))
            break
    else:
        rest.append(r)
print('%d derived, %d left for manual triage' % (len(derived), len(rest)))
for r in rest:
    print('  LEFT', r['signature'], '|', r['what'][:150], flush=False)
if apply_:
    for r, s2, k in derived:
        expl = 'the listed defect "%s" reached through another prefix set (the extra prefix takes no part in the faulty path): %s' % (
            s2, k['explanation'][:300])
        K['findings'].append({'property': pid, 'signature': r['signature'], 'what': (r['what'][:300] + ' -- ' + expl).strip(),
                              'witness': r['witness'], 'explanation': expl})
    K['findings'].sort(key=lambda f: (f['property'], f.get('signature') or f.get('signature_regex')))
    json.dump(K, open('/verif/known_findings.json', 'w'), indent=1)
    print(len(K['findings']), 'findings')
