#!/bin/bash
# hand tool: confirm + test the wave-3 changes of one property: wave3.sh C16 [extra seedtest args]
P=$1; shift
for k in 1 2; do
  echo "== $P wave3 #$k -> seeded/$P-$((k+5))"
  python3 /verif/tools/seedtest.py $P $k --src /tmp/wtout3 --as $((k+5)) "$@" 2>&1 | grep -v '^KNOWN' | tail -6
done
