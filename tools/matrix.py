#!/usr/bin/env python3
"""Hand tool: which checks catch which seeded change.  Every seeded/<id>/patch.diff is applied to a scratch
worktree of /repo HEAD (outside /repo and /verif; MIASMX_REPO points the checks at it, /repo itself is untouched),
the related quick checks are run, the worktree is removed.  Writes seeded/MATRIX.json (and prints a table).
usage: matrix.py [--all-checks] [ids...]"""
import os, sys, json, subprocess, shutil, tempfile, glob, time

V = os.path.dirname(os.path.dirname(os.path.abspath(__file__)))
ALL = ['C%02d' % i for i in range(1, 20)]
BY_FILE = {
    'miasmx/expression/expression.py': ['C05', 'C06', 'C13', 'C15', 'C16', 'C11', 'C12', 'C07', 'C04', 'C08'],
    'miasmx/expression/expression_helper.py': ['C05', 'C06', 'C13', 'C12', 'C07'],
    'miasmx/expression/expression_eval_abstract.py': ['C06', 'C07', 'C12', 'C13'],
    'miasmx/tools/modint.py': ['C14', 'C05', 'C06', 'C02'],
    'miasmx/tools/emul_helper.py': ['C07', 'C12', 'C13', 'C04', 'C11'],
    'miasmx/arch/ia32_sem.py': ['C04', 'C08', 'C11', 'C07', 'C13'],
    'miasmx/arch/ia32_arch.py': ['C01', 'C02', 'C03', 'C09', 'C10', 'C17', 'C19', 'C11', 'C12'],
    'miasmx/arch/ia32_att.py': ['C02', 'C09', 'C19', 'C10', 'C03'],
    'miasmx/core/parse_ad.py': ['C02', 'C03', 'C19', 'C10', 'C09'],
    'miasmx/core/bin_stream.py': ['C10', 'C17', 'C01'],
    'miasmx/arch/ppc_arch.py': ['C18'],
    'ply/yacc.py': ['C12', 'C02', 'C10'],
}


SLOW = ('C06', 'C10', 'C12')      # only run as the change's own check
MAXREL = int(os.environ.get('MATRIX_MAXREL', '3'))


def sh(cmd, **kw):
    r = subprocess.run(cmd, shell=True, stdout=subprocess.PIPE, stderr=subprocess.STDOUT, **kw)
    return r.returncode, r.stdout.decode('utf8', 'replace')


def main():
    args = [a for a in sys.argv[1:] if not a.startswith('--')]
    allchecks = '--all-checks' in sys.argv
    ids = args or sorted(os.path.basename(d) for d in glob.glob(os.path.join(V, 'seeded', 'C*-*')))
    out_path = os.path.join(V, 'seeded', 'MATRIX.json')
    M = json.load(open(out_path)) if os.path.exists(out_path) else {}
    for sid in ids:
        d = os.path.join(V, 'seeded', sid)
        patch = os.path.join(d, 'patch.diff')
        files = [l[6:].strip() for l in open(patch) if l.startswith('+++ b/')]
        own = sid.split('-')[0]
        checks = list(ALL) if allchecks else []
        if not allchecks:
            checks = [own]
            for f in files:
                for c in BY_FILE.get(f, []):
                    if c not in checks and c not in SLOW and len(checks) < 1 + MAXREL:
                        checks.append(c)
        wt = tempfile.mkdtemp(prefix='mxwt-', dir='/tmp')
        os.rmdir(wt)
        rc, o = sh('git -C /repo worktree add -q --detach %s HEAD' % wt)
        assert rc == 0, o
        try:
            rc, o = sh('git apply %s' % patch, cwd=wt)
            if rc != 0:
                M[sid] = {'error': 'patch does not apply to HEAD: ' + o[-200:]}
                print(sid, 'PATCH DOES NOT APPLY')
                continue
            row = M.get(sid, {})
            for c in checks:
                if c in row and 'rc' in row[c]:
                    continue
                t0 = time.time()
                rc, o = sh('./check %s --tier quick' % c, cwd=V, env=dict(os.environ, MIASMX_REPO=wt, VERIF_REPLAYS='/dev/shm/mx-matrix', VERIF_EVIDENCE='/dev/shm/mx-matrix'))
                nv = sum(1 for l in o.splitlines() if l.startswith('VIOLATION'))
                more = [l for l in o.splitlines() if l.startswith('... ')]
                row[c] = {'rc': rc, 'violations': nv, 'wall_s': round(time.time() - t0, 1)}
                print(sid, c, 'rc=%d' % rc, 'violations=%d%s' % (nv, '+' if more else ''), flush=True)
            M[sid] = row
            json.dump(M, open(out_path, 'w'), indent=1, sort_keys=True)
        finally:
            sh('git -C /repo worktree remove --force %s' % wt)
            shutil.rmtree(wt, ignore_errors=True)
    json.dump(M, open(out_path, 'w'), indent=1, sort_keys=True)


main()
