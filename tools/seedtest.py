#!/usr/bin/env python3
"""Hand tool: confirm a seeded property-breaking change and run the checks against it.

usage: seedtest.py <PROP> <k> [--checks C05,C13] [--tier quick] [--from /tmp/wtout]
 1. in a scratch worktree of /repo HEAD (outside /repo and /verif): apply patch<k>.diff, run the
    unedited test suite (must be 278 passed), run demo<k>.py (must fail), revert, run demo (must pass)
 2. apply the patch to a second scratch worktree, run each check against it (MIASMX_REPO), remove it
 3. store patch/demo/meta under /verif/seeded/<PROP>-<k>/ with what was run and what was detected
"""
import sys, os, json, subprocess, shutil, argparse, tempfile, time

ap = argparse.ArgumentParser()
ap.add_argument('prop')
ap.add_argument('k')
ap.add_argument('--checks')
ap.add_argument('--tier', default='quick')
ap.add_argument('--src', default='/tmp/wtout')
ap.add_argument('--skip-confirm', action='store_true')
ap.add_argument('--as', dest='as_k', help='store under seeded/<PROP>-<as_k> instead of <k>')
a = ap.parse_args()
P, K = a.prop, a.k
src = os.path.join(a.src, P)
patch = os.path.join(src, 'patch%s.diff' % K)
demo = os.path.join(src, 'demo%s.py' % K)
meta_in = os.path.join(src, 'meta%s.json' % K)
checks = (a.checks or P).split(',')
out = '/verif/seeded/%s-%s' % (P, a.as_k or K)


def sh(cmd, cwd=None, env=None, timeout=3600):
    e = dict(os.environ)
    e.update(env or {})
    r = subprocess.run(cmd, shell=True, cwd=cwd, env=e, stdout=subprocess.PIPE, stderr=subprocess.STDOUT, timeout=timeout)
    return r.returncode, r.stdout.decode('utf8', 'replace')


res = {'property': P, 'k': a.as_k or K}
if os.path.exists(os.path.join(out, 'meta.json')):
    res.update(json.load(open(os.path.join(out, 'meta.json'))))
if os.path.exists(meta_in):
    res.update(json.load(open(meta_in)))
if not a.skip_confirm:
    wt = tempfile.mkdtemp(prefix='seedwt-', dir='/tmp')
    tmpd = wt + '.tmp'
    os.makedirs(tmpd)
    try:
        os.rmdir(wt)
        rc, o = sh('git -C /repo worktree add -q --detach %s HEAD' % wt)
        assert rc == 0, o
        env = {'TMPDIR': tmpd, 'PYTHONDONTWRITEBYTECODE': '1'}
        rc, o = sh('git apply --3way %s || git apply %s' % (patch, patch), cwd=wt)
        if rc != 0:
            print('PATCH DOES NOT APPLY to current HEAD:\n' + o)
            res['confirmed'] = False
            res['confirm_note'] = 'patch does not apply to HEAD: ' + o[-300:]
            raise SystemExit(3)
        sh('git reset -q', cwd=wt)
        rc, o = sh('/venv/bin/python -m pytest -q -p no:cacheprovider --timeout=900 2>&1 | tail -3', cwd=wt, env=env)
        res['tests_with_patch'] = o.strip().splitlines()[-1] if o.strip() else ''
        rc1, o1 = sh('/venv/bin/python %s' % demo, cwd=wt, env=env, timeout=600)
        # save the diff as applied on current HEAD
        rcd, cur = sh('git diff', cwd=wt)
        sh('git checkout -q -- .', cwd=wt)
        rc2, o2 = sh('/venv/bin/python %s' % demo, cwd=wt, env=env, timeout=600)
        res['demo_with_patch_rc'] = rc1
        res['demo_without_patch_rc'] = rc2
        res['confirmed'] = ('278 passed' in res['tests_with_patch']) and rc1 != 0 and rc2 == 0
        print('tests: %s | demo with patch rc=%d | demo without rc=%d | confirmed=%s' % (res['tests_with_patch'], rc1, rc2, res['confirmed']))
        if not res['confirmed']:
            print(o1[-600:])
            print(o2[-600:])
    finally:
        sh('git -C /repo worktree remove --force %s' % wt)
        shutil.rmtree(wt, ignore_errors=True)
        shutil.rmtree(tmpd, ignore_errors=True)
else:
    cur = open(patch).read()
os.makedirs(out, exist_ok=True)
open(os.path.join(out, 'patch.diff'), 'w').write(cur)
shutil.copy(demo, os.path.join(out, 'demo.py'))
det = {}
if res.get('confirmed', True):
    # the checks run against a scratch worktree with the change applied (MIASMX_REPO), so /repo itself is never
    # modified and background runs that use /repo are not disturbed; same effect as git -C /repo apply / checkout
    wt2 = tempfile.mkdtemp(prefix='seedrun-', dir='/tmp')
    os.rmdir(wt2)
    rc, o = sh('git -C /repo worktree add -q --detach %s HEAD' % wt2)
    assert rc == 0, o
    try:
        rc, o = sh('git apply %s' % os.path.join(out, 'patch.diff'), cwd=wt2)
        assert rc == 0, o
        ev = tempfile.mkdtemp(prefix='seedev-', dir='/dev/shm')
        for c in checks:
            t0 = time.time()
            rc, o = sh('./check %s --tier %s' % (c, a.tier), cwd='/verif', timeout=7200, env={'MIASMX_REPO': wt2, 'VERIF_REPLAYS': ev, 'VERIF_EVIDENCE': ev})
            v = [l for l in o.splitlines() if l.startswith('VIOLATION')]
            sigs = [l.strip() for l in o.splitlines() if l.strip().startswith('signature:')]
            det[c] = {'rc': rc, 'violations': len(v), 'signatures': sigs[:6], 'wall_s': round(time.time() - t0, 1), 'tier': a.tier}
            print('check %s (%s): rc=%d violations=%d %.0fs %s' % (c, a.tier, rc, len(v), time.time() - t0, sigs[:2]))
            if rc not in (0, 1):
                print(o[-1500:])
        shutil.rmtree(ev, ignore_errors=True)
    finally:
        sh('git -C /repo worktree remove --force %s' % wt2)
        shutil.rmtree(wt2, ignore_errors=True)
old = {}
mp = os.path.join(out, 'meta.json')
if os.path.exists(mp):
    old = json.load(open(mp)).get('detected_by', {})
old.update(det)
res['detected_by'] = old
res['what_was_run'] = ('scratch worktree of /repo HEAD: git apply; unedited pytest suite; demo.py with and without the patch; '
                       'then the same change in a second scratch worktree, MIASMX_REPO=<worktree> ./check <id>, worktree removed')
json.dump(res, open(mp, 'w'), indent=1, sort_keys=True)
