#!/bin/bash
# hand tool: confirm + test the wave-4 changes of one property: wave4.sh C16 [extra seedtest args]
P=$1; shift
for k in 1 2; do
  echo "== $P wave4 #$k -> seeded/$P-$((k+7))"
  python3 /verif/tools/seedtest.py $P $k --src /tmp/wtout4 --as $((k+7)) "$@" 2>&1 | grep -v '^KNOWN' | tail -6
done
