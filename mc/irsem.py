"""R1 - reference bit-vector semantics of the miasmX IR (independent of miasmX).

Neutral tree form (plain tuples):
  ('int', size, value) ('id', name, size) ('mem', addr, size, segm|None)
  ('op', name, (args...)) ('slice', arg, start, stop)
  ('compose', ((arg, start, stop), ...)) ('cond', c, a, b) ('aff', dst, src)

Two evaluators with the same meaning: ev_int (Python ints, explicit byte memory) and
ev_np (numpy uint64 lanes, functional memory).  They are cross-checked at start-up.
"""
import numpy as np

U64 = np.uint64
ASSOC = ('+', '*', '^', '&', '|')


class Unsupported(Exception):
    """operator outside the interpreted fragment (x87, MMX, cpuid, ...)"""


class Undefined(Exception):
    """the reference leaves the result undefined (division by zero, overflow)"""


def mask(n):
    return (1 << n) - 1


# ---------------------------------------------------------------------------
# conversion from / to miasmX objects (public fields only)

def to_neutral(e):
    c = e.__class__.__name__
    if c == 'ExprInt':
        return ('int', e.arg.size, int(e.arg) & mask(e.arg.size))
    if c == 'ExprId':
        if e.is_term or e.is_reg:
            return ('id', e.name, e.size, bool(e.is_term), bool(e.is_reg))
        return ('id', e.name, e.size)
    if c == 'ExprMem':
        return ('mem', to_neutral(e.arg), e.size, to_neutral(e.segm) if e.segm is not None and hasattr(e.segm, 'get_size') else None)
    if c == 'ExprOp':
        return ('op', e.op, tuple(to_neutral(a) for a in e.args))
    if c == 'ExprSlice':
        return ('slice', to_neutral(e.arg), e.start, e.stop)
    if c == 'ExprCompose':
        return ('compose', tuple((to_neutral(a[0]), a[1], a[2]) for a in e.args))
    if c == 'ExprCond':
        return ('cond', to_neutral(e.cond), to_neutral(e.src1), to_neutral(e.src2))
    if c == 'ExprAff':
        return ('aff', to_neutral(e.dst), to_neutral(e.src))
    raise Unsupported('node %s' % c)


_X = None


def X():
    global _X
    if _X is None:
        import miasmx.expression.expression as x
        _X = x
    return _X


def from_neutral(t):
    """builds FRESH miasmX objects (no node shared with anything else)"""
    x = X()
    k = t[0]
    if k == 'int':
        return x.ExprInt(x.tab_uintsize[t[1]](t[2]))
    if k == 'id':
        if len(t) > 3:
            return x.ExprId(t[1], t[2], is_term=t[3], is_reg=t[4])
        return x.ExprId(t[1], t[2])
    if k == 'mem':
        return x.ExprMem(from_neutral(t[1]), t[2], from_neutral(t[3]) if t[3] is not None else None)
    if k == 'op':
        return x.ExprOp(t[1], *[from_neutral(a) for a in t[2]])
    if k == 'slice':
        return x.ExprSlice(from_neutral(t[1]), t[2], t[3])
    if k == 'compose':
        return x.ExprCompose([(from_neutral(a), s, e) for a, s, e in t[1]])
    if k == 'cond':
        return x.ExprCond(from_neutral(t[1]), from_neutral(t[2]), from_neutral(t[3]))
    if k == 'aff':
        return x.ExprAff(from_neutral(t[1]), from_neutral(t[2]))
    raise ValueError(t)


def show(t):
    k = t[0]
    if k == 'int':
        return '0x%X:%d' % (t[2], t[1])
    if k == 'id':
        return '%s:%d' % (t[1], t[2])
    if k == 'mem':
        return '%s@%d[%s]' % ((show(t[3]) + ':') if t[3] else '', t[2], show(t[1]))
    if k == 'op':
        if len(t[2]) == 1:
            return '(%s %s)' % (t[1], show(t[2][0]))
        return '(' + (' %s ' % t[1]).join(show(a) for a in t[2]) + ')'
    if k == 'slice':
        return '%s[%d:%d]' % (show(t[1]), t[2], t[3])
    if k == 'compose':
        return '{' + ', '.join('%s,%d,%d' % (show(a), s, e) for a, s, e in t[1]) + '}'
    if k == 'cond':
        return '(%s ? %s : %s)' % (show(t[1]), show(t[2]), show(t[3]))
    if k == 'aff':
        return '%s = %s' % (show(t[1]), show(t[2]))
    return repr(t)


def size_nodes(t):
    k = t[0]
    if k in ('int', 'id'):
        return 1
    if k == 'mem':
        return 1 + size_nodes(t[1])
    if k == 'op':
        return 1 + sum(size_nodes(a) for a in t[2])
    if k == 'slice':
        return 1 + size_nodes(t[1])
    if k == 'compose':
        return 1 + sum(size_nodes(a) for a, s, e in t[1])
    if k == 'cond':
        return 1 + size_nodes(t[1]) + size_nodes(t[2]) + size_nodes(t[3])
    if k == 'aff':
        return 1 + size_nodes(t[1]) + size_nodes(t[2])
    return 1


# ---------------------------------------------------------------------------
# widths / typing

class IllTyped(Exception):
    pass


CMPOPS = ('==', '<')
SHIFTS = ('<<', '>>', 'a>>', '<<<', '>>>')
# lifter operators: name -> (arity, result width as function of first-arg width)
LIFTER2 = ('umul08', 'imul08', 'umul16_lo', 'umul16_hi', 'umul32_lo', 'umul32_hi',
           'imul16_lo', 'imul16_hi', 'imul32_lo', 'imul32_hi', 'bsf', 'bsr', '*lo', '*hi')
LIFTER3 = ('div8', 'rem8', 'div16', 'rem16', 'div32', 'rem32', 'idiv8', 'irem8', 'idiv16', 'irem16',
           'idiv32', 'irem32', '<<<c_rez', '<<<c_cf', '>>>c_rez', '>>>c_cf')


def width(t, strict=False):
    """bit width of a value expression; strict=True also enforces the typing rules of C11"""
    k = t[0]
    if k == 'int':
        return t[1]
    if k == 'id':
        return t[2]
    if k == 'mem':
        if strict:
            width(t[1], True)
        return t[2]
    if k == 'op':
        op, args = t[1], t[2]
        if not args:
            raise IllTyped('operator %s without operand' % op)
        ws = [width(a, strict) for a in args]
        if strict:
            if op in ASSOC or op in ('-', '==', '<'):
                if len(set(ws)) != 1:
                    raise IllTyped('operands of %s have widths %s' % (op, ws))
        return ws[0]
    if k == 'slice':
        w = width(t[1], strict)
        if strict and not (0 <= t[2] < t[3] <= w):
            raise IllTyped('slice [%d:%d] outside operand of width %d' % (t[2], t[3], w))
        return t[3] - t[2]
    if k == 'compose':
        if strict:
            pos = 0
            for a, s, e in sorted(t[1], key=lambda z: z[1]):
                if s != pos or e <= s:
                    raise IllTyped('compose slots do not tile: %s' % [(s, e) for _, s, e in t[1]])
                if width(a, True) != e - s:
                    raise IllTyped('compose slot [%d:%d] holds an expression of width %d' % (s, e, width(a, True)))
                pos = e
        return max(e for a, s, e in t[1]) - min(s for a, s, e in t[1])
    if k == 'cond':
        w1, w2 = width(t[2], strict), width(t[3], strict)
        if strict:
            width(t[1], True)
            if w1 != w2:
                raise IllTyped('arms of a conditional have widths %d and %d' % (w1, w2))
        return w1
    if k == 'aff':
        return width(t[1], strict)
    raise IllTyped(repr(t))


# ---------------------------------------------------------------------------
# scalar evaluator

def default_membyte(a, salt=0):
    a &= 0xffffffff
    return ((a * 0x9E3779B1 + salt * 0x85EBCA6B) >> 11 ^ a ^ (salt * 0x1f)) & 0xff


def sx(v, n):
    return v - (1 << n) if v >> (n - 1) else v


def _parity8(v):
    return 1 - (bin(v & 0xff).count('1') & 1)


class Env(object):
    """valuation of identifiers (name -> int) and a byte memory (explicit dict over a default function)"""
    def __init__(self, ids, mem=None, salt=0):
        self.ids = ids
        self.mem = mem if mem is not None else {}
        self.salt = salt

    def byte(self, a):
        a &= 0xffffffff
        if a in self.mem:
            return self.mem[a]
        return default_membyte(a, self.salt)

    def read(self, a, size):
        v = 0
        for i in range(size // 8):
            v |= self.byte(a + i) << (8 * i)
        return v


def ev_int(t, env):
    k = t[0]
    if k == 'int':
        return t[2] & mask(t[1])
    if k == 'id':
        return env.ids[t[1]] & mask(t[2])
    if k == 'mem':
        return env.read(ev_int(t[1], env), t[2])
    if k == 'slice':
        return (ev_int(t[1], env) >> t[2]) & mask(t[3] - t[2])
    if k == 'compose':
        v = 0
        for a, s, e in t[1]:
            v |= (ev_int(a, env) & mask(e - s)) << s
        return v
    if k == 'cond':
        return ev_int(t[2], env) if ev_int(t[1], env) != 0 else ev_int(t[3], env)
    if k == 'op':
        op, args = t[1], t[2]
        n = width(args[0])
        m = mask(n)
        vs = [ev_int(a, env) for a in args]
        return op_int(op, n, vs, [width(a) for a in args]) & m
    raise Unsupported(k)


def op_int(op, n, vs, ws):
    m = mask(n)
    if op == '+':
        return sum(vs) & m
    if op == '*':
        r = 1
        for v in vs:
            r = (r * v) & m
        return r
    if op == '^':
        r = 0
        for v in vs:
            r ^= v
        return r
    if op == '&':
        r = m
        for v in vs:
            r &= v
        return r
    if op == '|':
        r = 0
        for v in vs:
            r |= v
        return r
    if op == '-':
        if len(vs) == 1:
            return (-vs[0]) & m
        if len(vs) == 2:
            return (vs[0] - vs[1]) & m
        raise Unsupported('n-ary -')
    if op == '!':
        return (~vs[0]) & m
    if op == '<<':
        return (vs[0] << vs[1]) & m if vs[1] < n else 0
    if op == '>>':
        return vs[0] >> vs[1] if vs[1] < n else 0
    if op == 'a>>':
        return (sx(vs[0], n) >> min(vs[1], n)) & m
    if op == '<<<':
        r = vs[1] % n
        return ((vs[0] << r) | (vs[0] >> (n - r))) & m
    if op == '>>>':
        r = vs[1] % n
        return ((vs[0] >> r) | (vs[0] << (n - r))) & m
    if op == '==':
        return 1 if vs[0] == vs[1] else 0
    if op == '<':
        return 1 if vs[0] < vs[1] else 0
    if op == 'parity':
        return _parity8(vs[0])
    # ---- operators produced by the x86 lifter
    if op == 'umul08':
        # 8 x 8 -> 16 bits: the low bytes of the operands (the lifter passes eax and the 8-bit operand)
        return ((vs[0] & 0xff) * (vs[1] & 0xff)) & 0xffff
    if op in ('umul16_lo', 'umul32_lo', '*lo'):
        return (vs[0] * vs[1]) & m
    if op in ('umul16_hi', 'umul32_hi', '*hi'):
        return ((vs[0] * vs[1]) >> n) & m
    if op in ('imul08',):
        return (sx(vs[0] & 0xff, 8) * sx(vs[1] & 0xff, 8)) & 0xffff
    if op in ('imul16_lo', 'imul32_lo'):
        return (sx(vs[0], n) * sx(vs[1], n)) & m
    if op in ('imul16_hi', 'imul32_hi'):
        return ((sx(vs[0], n) * sx(vs[1], n)) >> n) & m
    if op in ('div8', 'div16', 'div32', 'rem8', 'rem16', 'rem32'):
        hi, lo, d = vs
        if d == 0:
            raise Undefined('#DE')
        big = (hi << n) | lo
        q, r = divmod(big, d)
        if q > m:
            raise Undefined('#DE')
        return q if op.startswith('div') else r
    if op in ('idiv8', 'idiv16', 'idiv32', 'irem8', 'irem16', 'irem32'):
        hi, lo, d = vs
        d = sx(d, n)
        if d == 0:
            raise Undefined('#DE')
        big = sx((hi << n) | lo, 2 * n)
        q = abs(big) // abs(d)
        if (big < 0) != (d < 0):
            q = -q
        r = big - q * d
        if not (-(1 << (n - 1)) <= q < (1 << (n - 1))):
            raise Undefined('#DE')
        return (q if op.startswith('idiv') else r) & m
    if op in ('<<<c_rez', '<<<c_cf', '>>>c_rez', '>>>c_cf'):
        # rotate through carry: args = (value, count, carry-in); count already masked by the lifter or not: mask 5 bits
        v, c, cf = vs
        c = (c & 0x1f) % (n + 1)
        big = (v | ((cf & 1) << n))          # n+1 bit quantity, carry on top
        w = n + 1
        if op.startswith('<<<'):
            big = ((big << c) | (big >> (w - c))) & mask(w)
        else:
            big = ((big >> c) | (big << (w - c))) & mask(w)
        return (big & m) if op.endswith('rez') else (big >> n) & 1
    if op == 'bsf':
        # args = (default, source)
        s = vs[-1]
        if s == 0:
            raise Undefined('bsf 0')
        return (s & -s).bit_length() - 1
    if op == 'bsr':
        s = vs[-1]
        if s == 0:
            raise Undefined('bsr 0')
        return s.bit_length() - 1
    raise Unsupported(op)


# ---------------------------------------------------------------------------
# vector evaluator (numpy uint64 lanes; widths <= 64)

def _m(n):
    return U64(mask(n))


def np_membyte(a, salt=0):
    a = a & U64(0xffffffff)
    with np.errstate(over='ignore'):
        x = (a * U64(0x9E3779B1) + U64((salt * 0x85EBCA6B) & mask(64)))
    return ((x >> U64(11)) ^ a ^ U64(salt * 0x1f)) & U64(0xff)


def _sar(v, c, n):
    # arithmetic shift right of n-bit values held in uint64, count array (any value)
    sign = (v >> U64(n - 1)) & U64(1)
    c = np.minimum(c, U64(n))
    full = c >= U64(n)
    cc = np.where(full, U64(0), c)
    lo = v >> cc
    fill = np.where(sign == U64(1), (_m(n) >> cc) ^ _m(n), U64(0))
    r = (lo | fill) & _m(n)
    allsign = np.where(sign == U64(1), _m(n), U64(0))
    return np.where(full, allsign, r)


def _parity_np(v):
    v = v & U64(0xff)
    v = v ^ (v >> U64(4))
    v = v ^ (v >> U64(2))
    v = v ^ (v >> U64(1))
    return (v & U64(1)) ^ U64(1)


MEMHOOK = None        # optional memory model: f(address lanes, size, salt) -> value lanes
SEGAWARE = False     # C15/C16 set this: a segment override selects a different address space


def _segsalt(seg):
    if seg is None or not SEGAWARE:
        return 0
    import zlib
    return 1 + (zlib.crc32(show(seg).encode()) & 0xffff)


def ev_np(t, ids, salt=0, lanes=None):
    """ids: name -> numpy uint64 array (all of equal length)"""
    k = t[0]
    if lanes is None:
        lanes = len(next(iter(ids.values()))) if ids else 1
    if k == 'int':
        return np.full(lanes, t[2] & mask(t[1]), dtype=U64)
    if k == 'id':
        return ids[t[1]] & _m(t[2])
    if k == 'mem':
        a = ev_np(t[1], ids, salt, lanes)
        if MEMHOOK is not None:
            return MEMHOOK(a, t[2], salt)
        v = np.zeros(lanes, dtype=U64)
        ss = salt + 7 * _segsalt(t[3])
        for i in range(t[2] // 8):
            v |= np_membyte(a + U64(i), ss) << U64(8 * i)
        return v
    if k == 'slice':
        return (ev_np(t[1], ids, salt, lanes) >> U64(t[2])) & _m(t[3] - t[2])
    if k == 'compose':
        v = np.zeros(lanes, dtype=U64)
        for a, s, e in t[1]:
            v |= (ev_np(a, ids, salt, lanes) & _m(e - s)) << U64(s)
        return v
    if k == 'cond':
        c = ev_np(t[1], ids, salt, lanes)
        return np.where(c != U64(0), ev_np(t[2], ids, salt, lanes), ev_np(t[3], ids, salt, lanes))
    if k == 'op':
        op, args = t[1], t[2]
        n = width(args[0])
        if n > 64:
            raise Unsupported('width %d' % n)
        vs = [ev_np(a, ids, salt, lanes) for a in args]
        with np.errstate(over='ignore'):
            return _op_np(op, n, vs) & _m(n)
    raise Unsupported(k)


def _op_np(op, n, vs):
    m = _m(n)
    if op in ASSOC:
        r = vs[0]
        for v in vs[1:]:
            if op == '+':
                r = r + v
            elif op == '*':
                r = r * v
            elif op == '^':
                r = r ^ v
            elif op == '&':
                r = r & v
            else:
                r = r | v
        return r & m
    if op == '-':
        if len(vs) == 1:
            return (U64(0) - vs[0]) & m
        if len(vs) == 2:
            return (vs[0] - vs[1]) & m
        raise Unsupported('n-ary -')
    if op == '!':
        return (~vs[0]) & m
    if op in ('<<', '>>'):
        c = vs[1]
        big = c >= U64(n)
        cc = np.where(big, U64(0), c)
        r = (vs[0] << cc) if op == '<<' else (vs[0] >> cc)
        return np.where(big, U64(0), r & m)
    if op == 'a>>':
        return _sar(vs[0], vs[1], n)
    if op in ('<<<', '>>>'):
        r = vs[1] % U64(n)
        inv = (U64(n) - r) % U64(n)
        if op == '<<<':
            a, b = r, inv
        else:
            a, b = inv, r
        # rotate left by a == rotate right by b ; both in 0..n-1 ; a==0 -> identity
        return np.where(a == U64(0), vs[0], ((vs[0] << a) | (vs[0] >> np.where(a == U64(0), U64(0), U64(n) - a)))) & m
    if op == '==':
        return (vs[0] == vs[1]).astype(U64)
    if op == '<':
        return (vs[0] < vs[1]).astype(U64)
    if op == 'parity':
        return _parity_np(vs[0])
    raise Unsupported(op)


def selfcheck():
    """every vectorised operator against the scalar one on all 2^16 8-bit pairs and boundary
    products at 1/16/32/64; the scalar one against big-int identities"""
    a8 = np.repeat(np.arange(256, dtype=U64), 256)
    b8 = np.tile(np.arange(256, dtype=U64), 256)
    A, B = ('id', 'a', 8), ('id', 'b', 8)
    ops2 = ['+', '*', '^', '&', '|', '-', '<<', '>>', 'a>>', '<<<', '>>>', '==', '<']
    for op in ops2:
        t = ('op', op, (A, B))
        r = ev_np(t, {'a': a8, 'b': b8})
        for i in range(0, 65536, 7):
            x = ev_int(t, Env({'a': int(a8[i]), 'b': int(b8[i])}))
            if x != int(r[i]):
                raise AssertionError('irsem self-check: %s a=%d b=%d scalar=%d vector=%d' % (op, a8[i], b8[i], x, r[i]))
    for op in ('-', '!', 'parity'):
        t = ('op', op, (A,))
        r = ev_np(t, {'a': a8, 'b': b8})
        for i in range(0, 65536, 257):
            if ev_int(t, Env({'a': int(a8[i])})) != int(r[i]):
                raise AssertionError('irsem self-check unary %s' % op)
    # scalar against big-int identities (8 bits, all pairs)
    for a in range(256):
        for b in (0, 1, 2, 7, 8, 9, 127, 128, 255):
            e = Env({'a': a, 'b': b})
            assert ev_int(('op', '+', (A, B)), e) == (a + b) % 256
            assert ev_int(('op', '*', (A, B)), e) == (a * b) % 256
            assert ev_int(('op', '<<', (A, B)), e) == (a << b) % 256
            assert ev_int(('op', '>>', (A, B)), e) == (a >> b)
            assert ev_int(('op', 'a>>', (A, B)), e) == ((a - 256 if a > 127 else a) >> b) % 256
            assert ev_int(('op', '<<<', (A, B)), e) == ((a << (b % 8)) | (a >> (8 - b % 8))) % 256
            assert ev_int(('op', 'parity', (A,)), e) == (bin(a).count('1') + 1) % 2
    for n in (1, 16, 32, 64):
        vals = sorted(set([0, 1, 2, n - 1, n, n + 1, mask(n) >> 1, (mask(n) >> 1) + 1, mask(n) - 1, mask(n), 0x12345678 & mask(n)]))
        vals = [v & mask(n) for v in vals]
        aa = np.array([x for x in vals for y in vals], dtype=U64)
        bb = np.array([y for x in vals for y in vals], dtype=U64)
        A, B = ('id', 'a', n), ('id', 'b', n)
        for op in ops2:
            t = ('op', op, (A, B))
            r = ev_np(t, {'a': aa, 'b': bb})
            for i in range(len(aa)):
                x = ev_int(t, Env({'a': int(aa[i]), 'b': int(bb[i])}))
                if x != int(r[i]):
                    raise AssertionError('irsem self-check n=%d: %s a=%d b=%d scalar=%d vector=%d' % (n, op, aa[i], bb[i], x, r[i]))
    # memory
    t = ('mem', ('op', '+', (('id', 'a', 32), ('int', 32, 3))), 32, None)
    aa = np.array([0, 1, 0xfffffffe, 0x1000], dtype=U64)
    r = ev_np(t, {'a': aa}, salt=1)
    for i in range(4):
        assert int(r[i]) == ev_int(t, Env({'a': int(aa[i])}, salt=1))
    return True


def mem_with_cells(cells):
    """memory model for ev_np: default bytes overridden by cells = [(address lanes, size, value lanes)]
    (later cells win, byte granularity, little endian)"""
    def f(a, size, salt):
        v = np.zeros(len(a), dtype=U64)
        for i in range(size // 8):
            ad = (a + U64(i)) & U64(0xffffffff)
            byte = np_membyte(ad, salt)
            for (ca, cs, cv) in cells:
                off = (ad - ca) & U64(0xffffffff)
                inside = off < U64(cs // 8)
                sh = np.where(inside, off, U64(0)) * U64(8)
                byte = np.where(inside, (cv >> sh) & U64(0xff), byte)
            v |= byte << U64(8 * i)
        return v
    return f
