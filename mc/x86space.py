"""S_x86: the shared space of x86 byte strings (DESIGN.md section 3).
case = prefixes ++ opcode-map bytes ++ opcode ++ ModRM ++ [SIB] ++ tail, cut to 15 bytes.
Deterministic enumeration, indexable by (work unit) so that shards are disjoint."""

MAPS = {'1': b'', '0f': b'\x0f', '0f38': b'\x0f\x38', '0f3a': b'\x0f\x3a'}
MAP_ORDER = ('1', '0f', '0f38', '0f3a')

PFX_QUICK = [(), (0x66,), (0x67,), (0xF2,), (0xF3,), (0xF0,), (0x64,)]
PFX_THOROUGH = PFX_QUICK + [(0x26,), (0x2E,), (0x36,), (0x3E,), (0x65,), (0x66, 0x67), (0x66, 0xF2), (0x66, 0xF3),
                            (0xF0, 0x66), (0x64, 0x66), (0x67, 0x64)]

T_NEG = bytes([0x81, 0x92, 0xA3, 0xB4, 0xC5, 0xD6, 0xE7, 0xF8, 0x09, 0x1A, 0x2B, 0x3C, 0x4D, 0x5E, 0x6F])
T_POS = bytes([0x01, 0x12, 0x23, 0x34, 0x45, 0x56, 0x67, 0x78, 0x09, 0x1A, 0x2B, 0x3C, 0x4D, 0x5E, 0x6F])
T_ZERO = bytes(15)
T_FF = bytes([0xFF] * 15)
T_BND = bytes([0x80, 0x7F, 0x80, 0x7F, 0x80, 0x7F, 0x00, 0x80, 0xFF, 0x7F, 0x80, 0x7F, 0x80, 0x7F, 0x80])   # disp8/imm8 = -128, +127; disp32 = 0x7f807f80
TAILS = {'neg': T_NEG, 'pos': T_POS, 'zero': T_ZERO, 'ff': T_FF, 'bnd': T_BND}

# SIB classes: no index (index=100), index with each scale, base=ebp (special with mod 0), eiz*2^k
SIB_CLASSES = [0x24, 0x0C, 0x4B, 0x9E, 0xD8, 0x25, 0x65, 0xE5, 0x1D, 0x64, 0x40, 0x9B, 0x12, 0xDB]   # last four: base == index at each scale


# bytes that are not opcodes of their map (escapes to another map, prefixes): enumerated as such elsewhere
ESCAPES = {('1', o) for o in (0x0f, 0x26, 0x2e, 0x36, 0x3e, 0x64, 0x65, 0x66, 0x67, 0xf0, 0xf2, 0xf3)} | {('0f', 0x38), ('0f', 0x3a)}


# prefix pairs explored by the quick tier over a reduced ModRM set ("lite" units: every /digit, register and [eax] form,
# one SIB form); the thorough tier runs the pairs of PFX_THOROUGH over the full ModRM x SIB space
PFX_PAIRS_LITE = [(0x66, 0xF2), (0x66, 0xF3), (0xF2, 0x66), (0xF3, 0x66), (0x66, 0x67), (0x67, 0x66), (0x64, 0x66), (0x66, 0x64), (0xF0, 0x66), (0x67, 0x64),
                  (0x67, 0xF3), (0x64, 0xF3), (0x3E, 0x66)]
LITE_MODRM = [((reg << 3) | 0x00, None) for reg in range(8)] + [((reg << 3) | 0xC1, None) for reg in range(8)] + [(0x44, 0x24), (0x84, 0x88), (0x06, None), (0x05, None)]


def units(tier):
    """work units (prefix set, map, opcode, tailname); each is enumerated over all ModRM x SIB classes"""
    P = PFX_QUICK if tier == 'quick' else PFX_THOROUGH
    tails = ['neg'] if tier == 'quick' else ['neg', 'pos', 'zero', 'ff', 'bnd']
    U = []
    for tn in tails:
        for pfx in P:
            for m in MAP_ORDER:
                for op in range(256):
                    if (m, op) in ESCAPES:
                        continue
                    U.append((pfx, m, op, tn))
    for pfx in PFX_PAIRS_LITE:
        if tier != 'quick' and pfx in PFX_THOROUGH:
            continue
        for m in MAP_ORDER:
            for op in range(256):
                if (m, op) in ESCAPES:
                    continue
                U.append((pfx, m, op, 'neg-lite'))
    # rows whose last operand is an 8-bit selector / predicate / count: every value of that byte (interior values)
    for pfx, m, op, has_modrm in IMM8_ROWS:
        U.append((pfx, m, op, 'imm8sweep' if has_modrm else 'imm8sweep-nomodrm'))
    return U


IMM8_ROWS = ([(p, '0f', 0xC2, True) for p in ((), (0x66,), (0xF2,), (0xF3,))] + [(p, '0f', 0x70, True) for p in ((), (0x66,), (0xF2,), (0xF3,))] +
             [(p, '0f', o, True) for p in ((), (0x66,)) for o in (0xC6, 0xC4, 0xC5, 0x71, 0x72, 0x73)] +
             [((0x66,), '0f3a', o, True) for o in (0x08, 0x09, 0x0A, 0x0B, 0x0C, 0x0D, 0x0E, 0x0F, 0x14, 0x15, 0x16, 0x17, 0x20, 0x21, 0x22, 0x40, 0x41, 0x42, 0x44,
                                                   0x60, 0x61, 0x62, 0x63)] + [((), '0f3a', 0x0F, True)] +
             [(p, '0f', o, True) for p in ((), (0x66,)) for o in (0xA4, 0xAC, 0xBA)] +
             [(p, '1', o, True) for p in ((), (0x66,)) for o in (0xC0, 0xC1, 0x6B, 0x80, 0x83, 0xC6)] +
             [((), '1', o, False) for o in (0xCD, 0xD4, 0xD5, 0x6A, 0xA8, 0xE4, 0xE6, 0xEB, 0x74, 0xB0)])


def modrm_variants(tier):
    """(modrm, sib or None): every ModRM; for mod != 3, rm = 4 every SIB class (thorough: all 256 SIB at reg = 0)"""
    out = []
    for modrm in range(256):
        mod, rm = modrm >> 6, modrm & 7
        if mod != 3 and rm == 4:
            if tier == 'thorough' and (modrm >> 3) & 7 == 0:
                for sib in range(256):
                    out.append((modrm, sib))
            else:
                for sib in SIB_CLASSES:
                    out.append((modrm, sib))
        else:
            out.append((modrm, None))
    return out


_MV = {}


def cases_of(unit, tier):
    """yield (bytes, meta) for one work unit; meta = (pfx, map, op, modrm, sib)"""
    pfx, m, op, tn = unit
    if tn.startswith('imm8sweep'):
        head = bytes(pfx) + MAPS[m] + bytes([op])
        for v in range(256):
            if tn == 'imm8sweep':
                for modrm in (0xC1, 0x00, 0xF8, 0x10):
                    yield (head + bytes([modrm, v]) + T_NEG)[:15], (pfx, m, op, modrm, None)
            else:
                yield (head + bytes([v]) + T_NEG)[:15], (pfx, m, op, 0xC0, None)
        return
    lite = tn.endswith('-lite')
    tail = TAILS[tn[:-5] if lite else tn]
    head = bytes(pfx) + MAPS[m] + bytes([op])
    if tier not in _MV:
        _MV[tier] = modrm_variants(tier)
    for modrm, sib in (LITE_MODRM if lite else _MV[tier]):
        if sib is None:
            b = head + bytes([modrm]) + tail
        else:
            b = head + bytes([modrm, sib]) + tail[1:]
        yield b[:15], (pfx, m, op, modrm, sib)


GROUP_OPS = {('1', o) for o in (0x80, 0x81, 0x82, 0x83, 0x8f, 0xc0, 0xc1, 0xc6, 0xc7, 0xd0, 0xd1, 0xd2, 0xd3,
                                0xd8, 0xd9, 0xda, 0xdb, 0xdc, 0xdd, 0xde, 0xdf, 0xf6, 0xf7, 0xfe, 0xff)} | \
            {('0f', o) for o in (0x00, 0x01, 0x0d, 0x18, 0x19, 0x1a, 0x1b, 0x1c, 0x1d, 0x1e, 0x1f, 0x71, 0x72, 0x73, 0xae, 0xb9, 0xba, 0xc7)}


def site(meta):
    """the table site a case exercises: opcode map, opcode, /digit for group opcodes, prefixes, reg|mem form"""
    pfx, m, op, modrm, sib = meta
    s = 'map=%s op=%02x' % (m, op)
    if (m, op) in GROUP_OPS:
        s += '/%d' % ((modrm >> 3) & 7)
        if m == '1' and 0xd8 <= op <= 0xdf and modrm >= 0xc0:
            s += ' rm=%d' % (modrm & 7) if op in (0xd9, 0xda, 0xdb, 0xde, 0xdf) else ''
    if 0x9b in pfx:
        s += ' after=9b'       # fwait in front of an x87 opcode (the wait forms finit/fstsw/fstcw/fclex/fstenv/fsave): C10 only
    sel = sorted(set(p for p in pfx if p in (0x66, 0x67, 0xf2, 0xf3)))     # only these change what the opcode means
    if sel:
        s += ' pfx=' + '.'.join('%02x' % p for p in sel)
        # a further prefix next to a meaning-changing one is a different decoding path (exact prefix-list tests)
        if any(p in (0x26, 0x2e, 0x36, 0x3e, 0x64, 0x65) for p in pfx):
            s += '+seg'
        if 0xf0 in pfx:
            s += '+lock'
    s += ' mod=%s' % ('reg' if modrm >= 0xc0 else 'mem')
    # a segment override is part of the site: the paths that carry, render and re-parse it are separate from the plain form
    # (ds/ss are named because they are canonical only where they change the default segment)
    if set(pfx) & {0x26, 0x2e, 0x36, 0x3e, 0x64, 0x65}:
        s += ' seg=ds' if 0x3e in pfx else ' seg=ss' if 0x36 in pfx else ' seg'
    return s
