"""Environment self-test run by setup.sh: every oracle a check relies on is exercised
on known vectors.  A missing tool makes setup fail loudly (never a silent pass)."""
import sys, subprocess, shutil


def main():
    missing = [t for t in ('objdump', 'as', 'objcopy', 'nm', 'llvm-mc', 'gcc') if not shutil.which(t)]
    if missing:
        print('selftest: missing tools: %s' % missing)
        sys.exit(1)
    from mc import cpu, irsem
    cpu.ensure_runner()
    cpu.selftest()
    irsem.selfcheck()
    print('selftest ok (tools, native CPU runner, irsem)')


if __name__ == '__main__':
    main()
