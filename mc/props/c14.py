"""C14 - fixed-width integers implement arithmetic modulo 2^n.
Bounded exhaustive enumeration: every operator x every ordered pair of the 11 types
x (all 2^16 value pairs at 8 bits | full product of the boundary sets elsewhere)
x direct/reflected, against plain Python integers reduced modulo 2^n."""
import time, operator, random
from .. import core

NEEDS_X86 = False
TYPES = ['uint1', 'uint8', 'uint16', 'uint32', 'uint64', 'uint128',
         'int8', 'int16', 'int32', 'int64', 'int128']
BINOPS = {
    '+': operator.add, '-': operator.sub, '*': operator.mul, '&': operator.and_,
    '|': operator.or_, '^': operator.xor, '<<': operator.lshift, '>>': operator.rshift,
    '%': operator.mod, 'pow': operator.pow,
    '==': operator.eq, '!=': operator.ne, '<': operator.lt, '<=': operator.le,
    '>': operator.gt, '>=': operator.ge,
}
TYPED = ('+', '-', '*', '&', '|', '^', '<<', '>>', '%')     # result-type rule is checked for these
CMP = ('==', '!=', '<', '<=', '>', '>=')
REFL = {'+': '__radd__', '-': '__rsub__', '*': '__rmul__', '&': '__rand__', '|': '__ror__',
        '^': '__rxor__', '<<': '__rlshift__', '>>': '__rrshift__', '%': '__rmod__', 'pow': '__rpow__'}
UNOPS = ('~', 'neg', 'abs', 'int', 'hash')
MAXSHIFT = 4096      # larger counts would need 2^count-bit intermediates (in miasmX itself too)
MAXEXP = 300


def mi():
    import miasmx.tools.modint as m
    return m


def tinfo(name):
    n = int(name.lstrip('uint'))
    return n, not name.startswith('u')


def reduce_to(v, n, signed):
    v %= (1 << n)
    if signed and v >= (1 << (n - 1)):
        v -= (1 << n)
    return v


def in_range(v, n, signed):
    if signed:
        return -(1 << (n - 1)) <= v < (1 << (n - 1))
    return 0 <= v < (1 << n)


def values_of(name, seed, full8=False):
    n, signed = tinfo(name)
    if n == 1:
        return [0, 1]
    if n == 8 and full8:
        return list(range(-128, 128)) if signed else list(range(256))
    vs = [0, 1, 2, (1 << (n - 1)) - 1, 1 << (n - 1), (1 << n) - 2, (1 << n) - 1]
    for k in range(3):          # fixed pseudo-random extras (independent of VERIF_SEED)
        rnd = random.Random(k * 1000003 + n)
        vs += [rnd.getrandbits(n), rnd.getrandbits(n)]
    if n >= 8:          # interior values: counts and exponents around every narrower width
        vs += [x for x in (3, 7, 8, 9, 15, 16, 17, 31, 32, 33, 63, 64, 65, 100, 127, 128, 129) if x < (1 << (n - 1))]
    out = []
    for v in vs:
        v = reduce_to(v, n, signed)
        if v not in out:
            out.append(v)
    return out


def exact(op, va, vb):
    """exact integer result or None when Python itself leaves the operation undefined / impractical"""
    if op in ('<<', '>>'):
        if vb < 0 or vb > MAXSHIFT:
            return None
    if op == '%' and vb == 0:
        return None
    if op == 'pow':
        if vb < 0 or vb > MAXEXP:
            return None
    return BINOPS[op](va, vb)


def check_binary(part, m, op, lt, va, rt, vb, mode):
    """lt/rt: type name or 'int'.  mode: direct (a op b) or reflected (b.__rop__(a))"""
    key = (op, lt, va, rt, vb, mode)
    ex = exact(op, va, vb)
    if ex is None:
        part.skip('undefined-in-python')
        return
    a = getattr(m, lt)(va) if lt != 'int' else va
    b = getattr(m, rt)(vb) if rt != 'int' else vb
    sig = 'op=%s left=%s right=%s mode=%s' % (op, lt, rt, mode)
    wit = {'op': op, 'lt': lt, 'lv': va, 'rt': rt, 'rv': vb, 'mode': mode}
    try:
        if mode == 'direct':
            r = BINOPS[op](a, b)
        else:
            r = getattr(b, REFL[op])(a)
    except Exception as e:
        part.n += 1
        part.violation(sig + ' kind=exception:%s' % type(e).__name__,
                       '%s(%s) %s %s(%s) [%s] raises %r' % (lt, va, op, rt, vb, mode, e), wit, size=abs(va) + abs(vb))
        return
    if op in CMP:
        if r is not ex and r != ex:
            part.n += 1
            part.violation(sig + ' kind=value', '%s(%s) %s %s(%s) [%s] = %r, expected %r' % (lt, va, op, rt, vb, mode, r, ex),
                           wit, size=abs(va) + abs(vb))
            return
        if op == '==' and r and hash(a) != hash(b):
            part.n += 1
            part.violation(sig + ' kind=hash', '%s(%s) == %s(%s) but hashes differ' % (lt, va, rt, vb), wit)
            return
        part.ok(key, outcome=(op, bool(r)))
        return
    # width of the result: the wider operand (a plain int adopts the other's type)
    ns = [tinfo(t)[0] for t in (lt, rt) if t != 'int']
    n = max(ns)
    if op == 'pow' and lt != 'int':
        n = tinfo(lt)[0]        # a power keeps the type of its base
    got = int(r)
    if (got - ex) % (1 << n) != 0:
        part.n += 1
        part.violation(sig + ' kind=value', '%s(%s) %s %s(%s) [%s] = %r, exact result %d mod 2^%d' % (
            lt, va, op, rt, vb, mode, r, ex, n), wit, size=abs(va) + abs(vb))
        return
    if op in TYPED:
        bad = None
        if not isinstance(r, m.moduint):
            bad = 'result is %s, not a fixed-width integer' % type(r).__name__
        elif r.size != n:
            bad = 'result type %s is not the wider operand width %d' % (type(r).__name__, n)
        elif 'int' in (lt, rt) and type(r).__name__ != (lt if rt == 'int' else rt):
            bad = 'mixing with a plain int changed the type to %s' % type(r).__name__
        elif not in_range(r.arg, n, isinstance(r, m.modint)):
            bad = 'result %r outside its type range' % r.arg
        if bad:
            part.n += 1
            part.violation(sig + ' kind=type', '%s(%s) %s %s(%s) [%s]: %s' % (lt, va, op, rt, vb, mode, bad), wit,
                           size=abs(va) + abs(vb))
            return
    part.ok(key, outcome=(op, got % (1 << n)) if n <= 8 else None,
            sample={'op': op, 'left': '%s(%d)' % (lt, va), 'right': '%s(%d)' % (rt, vb), 'mode': mode, 'result': repr(r)} if len(part.samples) < 3 and va > 2 and vb > 2 else None)


def check_unary(part, m, op, t, v):
    n, signed = tinfo(t)
    a = getattr(m, t)(v)
    sig = 'op=%s type=%s' % (op, t)
    wit = {'op': op, 'lt': t, 'lv': v, 'unary': True}
    try:
        if op == '~':
            r, ex = ~a, ~v
        elif op == 'neg':
            r, ex = -a, -v
        elif op == 'abs':
            r, ex = abs(a), abs(v)
        elif op == 'int':
            r, ex = int(a), v
            if r != ex or type(r) is not int:
                part.n += 1
                part.violation(sig + ' kind=value', 'int(%s(%d)) = %r' % (t, v, r), wit, size=abs(v))
                return
        elif op == 'hash':
            b = getattr(m, t)(v)
            if hash(a) != hash(b) or (a == v and hash(a) != hash(v)):
                part.n += 1
                part.violation(sig + ' kind=hash', 'hash(%s(%d)) inconsistent with equality' % (t, v), wit, size=abs(v))
                return
            part.ok((op, t, v))
            return
    except Exception as e:
        part.n += 1
        part.violation(sig + ' kind=exception:%s' % type(e).__name__, '%s %s(%d) raises %r' % (op, t, v, e), wit, size=abs(v))
        return
    if (int(r) - ex) % (1 << n) != 0:
        part.n += 1
        part.violation(sig + ' kind=value', '%s %s(%d) = %r, exact %d mod 2^%d' % (op, t, v, r, ex, n), wit, size=abs(v))
        return
    if op in ('~', 'neg'):
        if type(r).__name__ != t or not in_range(r.arg, n, signed):
            part.n += 1
            part.violation(sig + ' kind=type', '%s %s(%d) = %r: wrong type or range' % (op, t, v, r), wit, size=abs(v))
            return
    part.ok((op, t, v), outcome=(op, int(r) % (1 << n)) if n <= 8 else None)


def ctor_check(part, m, t, v):
    """construction normalises any integer into the range (incl. from another fixed-width value)"""
    n, signed = tinfo(t)
    sig = 'op=ctor type=%s' % t
    try:
        a = getattr(m, t)(v)
    except Exception as e:
        part.n += 1
        part.violation(sig + ' kind=exception:%s' % type(e).__name__, '%s(%d) raises %r' % (t, v, e), {'op': 'ctor', 'lt': t, 'lv': v})
        return
    if a.arg != reduce_to(v, n, signed) or type(a.arg) is not int:
        part.n += 1
        part.violation(sig + ' kind=value', '%s(%d).arg = %r' % (t, v, a.arg), {'op': 'ctor', 'lt': t, 'lv': v}, size=abs(v))
        return
    part.ok(('ctor', t, v))


def jobs(tier, seed):
    """the declared space, as a deterministic list of work items"""
    J = []
    eight = ['uint8', 'int8']
    for lt in eight:
        for rt in eight:
            for hi in range(0, 256, 16):
                J.append(('full8', lt, rt, hi))
    for lt in TYPES:
        for rt in TYPES:
            J.append(('bound', lt, rt))
    for t in TYPES:
        J.append(('int', t))
        J.append(('unary', t))
    # the same (value, value) pairs through every type pair within ONE process, widths ascending / descending / interleaved:
    # a result must not depend on which width computed the same numbers before (memo keyed without the width)
    for order in ('ascending', 'descending', 'interleaved'):
        J.append(('order', order))
    if tier == 'thorough':
        # all 8-bit values against every other type's boundary set, both orders
        for t8 in eight + ['uint1']:
            for t in TYPES:
                if t in eight and t8 in eight:
                    continue
                J.append(('full8xbound', t8, t))
                J.append(('boundxfull8', t, t8))
    return J


def shard(s, ns, tier, seed):
    m = mi()
    part = core.Part()
    J = jobs(tier, seed)
    for idx in range(s, len(J), ns):
        j = J[idx]
        if j[0] == 'full8':
            _, lt, rt, hi = j
            la = values_of(lt, seed, True)[hi:hi + 16]
            rb = values_of(rt, seed, True)
            for op in BINOPS:
                for va in la:
                    for vb in rb:
                        check_binary(part, m, op, lt, va, rt, vb, 'direct')
            for op in REFL:
                for va in la:
                    for vb in rb[::5]:
                        check_binary(part, m, op, lt, va, rt, vb, 'reflected')
        elif j[0] in ('bound', 'full8xbound', 'boundxfull8'):
            _, lt, rt = j
            la = values_of(lt, seed, j[0] == 'full8xbound')
            rb = values_of(rt, seed, j[0] == 'boundxfull8')
            for op in BINOPS:
                for va in la:
                    for vb in rb:
                        check_binary(part, m, op, lt, va, rt, vb, 'direct')
                        if op in REFL:
                            check_binary(part, m, op, lt, va, rt, vb, 'reflected')
        elif j[0] == 'int':
            t = j[1]
            n, signed = tinfo(t)
            tv = values_of(t, seed, tier == 'thorough')
            iv = sorted(set(values_of(t, seed) + [-1, -2, -(1 << (n - 1)), (1 << n), (1 << n) + 1, 3, 7, 8, 9]))
            for op in BINOPS:
                for va in tv:
                    for vb in iv:
                        check_binary(part, m, op, t, va, 'int', vb, 'direct')       # a op int
                        check_binary(part, m, op, 'int', vb, t, va, 'direct')       # int op a (python picks the reflected method)
                        if op in REFL:
                            check_binary(part, m, op, 'int', vb, t, va, 'reflected')
            for v in iv + [(1 << (2 * n)) - 1, -(1 << n) - 1]:
                ctor_check(part, m, t, v)
        elif j[0] == 'order':
            byw = sorted(TYPES, key=lambda t: (tinfo(t)[0], t))
            seq = {'ascending': byw, 'descending': byw[::-1], 'interleaved': byw[::2] + byw[1::2][::-1]}[j[1]]
            shared_l = [3, 5, 7, 2, 0x55, 0x7f, 1]
            shared_r = [64, 65, 100, 127, 3, 7, 1, 8, 9, 16, 31, 33]
            for op in BINOPS:
                for va in shared_l:
                    for vb in shared_r:
                        for lt in seq:
                            if not in_range(va, *tinfo(lt)):
                                continue
                            for rt in seq + ['int']:
                                if rt != 'int' and not in_range(vb, *tinfo(rt)):
                                    continue
                                check_binary(part, m, op, lt, va, rt, vb, 'direct')
        elif j[0] == 'unary':
            t = j[1]
            for op in UNOPS:
                for v in values_of(t, seed, True):
                    check_unary(part, m, op, t, v)
    return part


def run(tier, seed):
    t0 = time.time()
    J = jobs(tier, seed)
    part = core.run_sharded(shard, (tier, seed), nshards=min(len(J), core.NPROC * 8))
    part.samples = part.samples[:3] + [{'work_items': [list(j) for j in J[:3]]}]
    rule = ('case = (operator, left type, left value, right type, right value, direct|reflected); '
            'space = 16 binary operators x {all 2^16 pairs for the 4 8-bit type pairs; full product of boundary sets '
            '{0,1,2,2^(n-1)-1,2^(n-1),2^n-2,2^n-1,+6 fixed constants} for all 121 ordered type pairs; each type x plain ints; 7 x 12 shared small value pairs through every type pair in one process in three width orders} '
            '+ 5 unary operators + constructors; non-trivial = the operation is defined in Python (no negative/huge shift '
            'count, no modulo zero, exponent in 0..%d) and reached the comparison; distinct = distinct case tuples' % MAXEXP)
    return core.finish('C14', tier, seed, t0, part, rule, exhaustive=True, space={'work_items': len(J)},
                       assumptions=['Python integers are the reference', 'values compared modulo 2^n (n = wider operand)',
                                    'result-type rule checked for + - * & | ^ << >> % only',
                                    'shift counts > %d and exponents > %d are skipped (intermediate too large)' % (MAXSHIFT, MAXEXP)])


def replay(w):
    m = mi()
    part = core.Part()
    if w.get('unary'):
        check_unary(part, m, w['op'], w['lt'], w['lv'])
    elif w['op'] == 'ctor':
        ctor_check(part, m, w['lt'], w['lv'])
    else:
        check_binary(part, m, w['op'], w['lt'], w['lv'], w['rt'], w['rv'], w['mode'])
    if part.viols:
        return True, '\n'.join('%s: %s' % (k, v[1]) for k, v in part.viols.items())
    return False, 'ok'
