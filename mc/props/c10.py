"""C10 - decoder and assembler are total: reject cleanly, never crash, loop or over-read.
Bytes: S_x86 unfiltered (prefix/escape bytes as opcodes included) + every truncation of every accepted
string + decoding from streams positioned at offsets.  Text: every token sequence up to length 3 over the
full lexical alphabet, up to 5 over a 12-token alphabet, up to 8 over a 5-token alphabet, and every
single-token deletion / duplication / swap of a corpus of valid lines, through asm and asm_att."""
import time, sys, traceback, itertools
from .. import core, x86space as S
from ..asmcorpus import CORPUS_INTEL, CORPUS_ATT

NEEDS_X86 = True
PADS = (0, 1, 7)


def raising_function(tb):
    """name of the innermost miasmX / ply function on the traceback (line-independent)"""
    name = '?'
    for fr in traceback.extract_tb(tb):
        if '/miasmx/' in fr.filename or '/ply/' in fr.filename:
            name = fr.name
    return name


def opsite(meta):
    pfx, m, op, modrm, sib = meta
    s = 'map=%s op=%02x' % (m, op)
    if (m, op) in S.GROUP_OPS:
        s += '/%d' % ((modrm >> 3) & 7)
    return s


def byte_case(part, ia32, b, meta, seen_prefix):
    from miasmx.core.bin_stream import bin_stream
    dis = ia32.x86mnemo.dis
    wit = {'bytes': b.hex()}
    site = opsite(meta)
    try:
        with core.watchdog(5):
            i = dis(b)
    except core.Timeout:
        part.violation('entry=dis kind=timeout %s' % site, 'dis(%s) does not terminate' % b.hex(), wit)
        return
    except Exception as ex:
        part.violation('entry=dis exc=%s in=%s %s' % (type(ex).__name__, raising_function(sys.exc_info()[2]), site),
                       'dis(%s) raises %r' % (b.hex(), ex), wit, size=len(meta[0]))
        return
    if i is None:
        part.ok(core.h64(b), outcome='none')
        return
    l = i.l
    try:
        if not (isinstance(l, int) and 0 < l <= len(b)):
            part.violation('entry=dis kind=length-out-of-range %s' % site, 'dis(%s).l = %r' % (b.hex(), l), wit)
            return
        if bytes(i.b) != b[:l]:
            part.violation('entry=dis kind=raw-bytes %s' % site, 'dis(%s).b = %s' % (b.hex(), bytes(i.b).hex()), wit)
            return
    except Exception as ex:
        part.violation('entry=dis kind=malformed-result exc=%s %s' % (type(ex).__name__, site), repr(ex), wit)
        return
    texts = []
    for fmt in ('intel_syntax noprefix', 'att_syntax binutils'):
        try:
            with core.watchdog(5):
                texts.append(i.__str__(asm_format=fmt))
        except Exception as ex:
            try:
                mnem = 'mnemo=%s' % i.m.name
            except Exception:
                mnem = site
            import re
            msg = re.sub(r"'[^']*'", 'X', re.sub(r'\d+', 'N', str(ex)))[:40]
            part.violation('entry=render:%s exc=%s in=%s %s msg=%s' % (fmt.split('_')[0], type(ex).__name__, raising_function(sys.exc_info()[2]), mnem, msg),
                           'rendering dis(%s) (%s) raises %r' % (b[:l].hex(), fmt, ex), wit, size=len(meta[0]))
            return
    key = b[:l]
    if key in seen_prefix:
        part.ok(core.h64(b), outcome='dup')
        return
    seen_prefix.add(key)
    # exactly the consumed bytes suffice; any shorter prefix is "absent"; no exception either way
    for k in range(1, l + 1):
        try:
            with core.watchdog(5):
                j = dis(b[:k])
                tj = None if j is None else (j.l, j.__str__(asm_format='intel_syntax noprefix'), j.__str__(asm_format='att_syntax binutils'))
        except Exception as ex:
            part.violation('entry=truncated exc=%s in=%s %s' % (type(ex).__name__, raising_function(sys.exc_info()[2]), site),
                           'dis(%s) (first %d of %d bytes) raises %r' % (b[:k].hex(), k, l, ex), wit, size=k)
            return
        if k < l and j is not None:
            part.violation('entry=truncated kind=accepted %s' % site,
                           'dis of the first %d bytes of the %d-byte instruction %s returns %s' % (k, l, b[:l].hex(), tj[1].strip()), wit, size=k)
            return
        if k == l and (j is None or tj != (l, texts[0], texts[1])):
            part.violation('entry=exact-bytes kind=%s %s' % ('absent' if j is None else 'differs', site),
                           'dis(%s) [exactly the consumed bytes] gives %s, dis with trailing bytes gave %s' % (b[:l].hex(), tj, texts[0].strip()),
                           wit)
            return
    for pad in PADS:
        for tail in (b'', b'\x90\x90'):
            buf = b'\xcc' * pad + b[:l] + tail
            try:
                st = bin_stream(buf, pad)
                with core.watchdog(5):
                    j = dis(st)
                    tj = None if j is None else (j.l, j.__str__(asm_format='intel_syntax noprefix'), j.__str__(asm_format='att_syntax binutils'))
            except Exception as ex:
                part.violation('entry=stream exc=%s in=%s %s' % (type(ex).__name__, raising_function(sys.exc_info()[2]), site),
                               'dis(bin_stream(%s, %d)) raises %r' % (buf.hex(), pad, ex), wit)
                return
            if j is None or tj != (l, texts[0], texts[1]):
                part.violation('entry=stream kind=%s tail=%d %s' % ('absent' if j is None else 'differs', len(tail), site),
                               'dis(bin_stream(%s, offset=%d)) gives %s; dis(bytes) gave %s' % (buf.hex(), pad, tj, texts[0].strip()), wit)
                return
            if j.offset != pad or st.offset != pad + l:
                part.violation('entry=stream kind=offsets %s' % site,
                               'after dis(bin_stream(.., %d)): instr.offset=%r stream.offset=%r (length %d)' % (pad, j.offset, st.offset, l), wit)
                return
    # a repeated size-override prefix is redundant: one more byte is consumed, nothing else changes (in particular the
    # decoder does not read bytes of the following instruction)
    if tuple(meta[0]) in ((0x66,), (0x67,)):
        b2 = bytes(meta[0]) + b[:l] + b'\xc3\x90\x90\x90'
        try:
            with core.watchdog(5):
                j = dis(b2)
                tj = None if j is None else (j.l, j.__str__(asm_format='intel_syntax noprefix'))
        except Exception as ex:
            part.violation('entry=repeated-prefix exc=%s in=%s %s' % (type(ex).__name__, raising_function(sys.exc_info()[2]), site),
                           'dis(%s) raises %r' % (b2.hex(), ex), wit)
            return
        if tj != (l + 1, texts[0]):
            part.violation('entry=repeated-prefix kind=%s pfx=%02x %s' % ('absent' if tj is None else 'length' if tj[0] != l + 1 else 'differs', meta[0][0], site),
                           'dis(%s) gives %s; with the prefix once: length %d, %s' % (b2.hex(), tj, l, texts[0].strip()), wit)
            return
    part.ok(core.h64(b), outcome=core.h64(texts[0].split()[0]), sample={'bytes': b[:l].hex(), 'intel': texts[0].strip(), 'truncations_checked': l} if len(part.samples) < 2 else None)
    part.counters['distinct_instructions_truncated'] += 1


def all_units(tier):
    P = S.PFX_QUICK if tier == 'quick' else S.PFX_THOROUGH
    tails = ['neg'] if tier == 'quick' else ['neg', 'zero', 'ff']
    U = [(pfx, m, op, tn) for tn in tails for pfx in P for m in S.MAP_ORDER for op in range(256)]
    # fwait directly in front of every x87 opcode x every ModRM (a decoder that looks ahead to fuse 9B DB E3 into finit etc. must still
    # report every truncation as absent and consume exactly what it reports)
    U += [(pre + (0x9B,), '1', op, 'neg') for pre in ((), (0x66,), (0x64,)) for op in range(0xD8, 0xE0)]
    return U


def shard_bytes(s, ns, tier, seed):
    ia32 = core.import_x86()
    part = core.Part()
    U = all_units(tier)
    seen = set()
    with core.quiet_stdout():
        for ui in range(s, len(U), ns):
            for b, meta in S.cases_of(U[ui], tier):
                n0 = len(part.viols)
                byte_case(part, ia32, b, meta, seen)
                if len(part.viols) != n0:
                    part.n += 1
    return part


# ---------------------------------------------------------------------------
TOK_FULL = ['mov', 'add', 'push', 'jmp', 'call', 'fadd', 'fstp', 'movq', 'paddd', 'lea', 'shl', 'rep', 'movsb', 'in', 'ret', 'imul', 'lock', 'movl', 'pushl',
            'al', 'ah', 'ax', 'eax', 'ebp', 'esp', 'cs', 'fs', 'cr0', 'dr3', 'mm0', 'xmm1', 'st', 'st(1)', '%eax', '%st(9)', '%dr1',
            'BYTE', 'WORD', 'DWORD', 'QWORD', 'TBYTE', 'XMMWORD', 'PTR', 'OFFSET', 'FLAT',
            '[', ']', '(', ')', '+', '-', '*', ':', ',', '%', '$',
            '0', '1', '4', '128', '0x10', '4294967296', 'foo', '.L1']
TOK_MID = ['mov', 'eax', '[', ']', '+', '*', '4', ',', 'DWORD', 'PTR', '(', '%eax']
TOK_MIN = ['mov', 'eax', '[', ',', '1']


def text_case(part, ia32, line, entry):
    f = ia32.x86mnemo.asm if entry == 'asm' else ia32.x86mnemo.asm_att
    try:
        with core.watchdog(5):
            r = f(line)
    except ValueError:
        part.ok(core.h64((entry, line)), outcome='ValueError')
        return
    except core.Timeout:
        part.n += 1
        part.violation('entry=%s kind=timeout' % entry, '%s(%r) does not terminate' % (entry, line), {'line': line, 'entry': entry}, size=len(line))
        return
    except BaseException as ex:
        if isinstance(ex, (KeyboardInterrupt, SystemExit)):
            raise
        part.n += 1
        part.violation('entry=%s exc=%s in=%s' % (entry, type(ex).__name__, raising_function(sys.exc_info()[2])),
                       '%s(%r) raises %s: %s' % (entry, line, type(ex).__name__, str(ex)[:100]), {'line': line, 'entry': entry}, size=len(line))
        return
    if not isinstance(r, list) or any(not isinstance(x, (bytes, bytearray)) for x in r):
        part.n += 1
        part.violation('entry=%s kind=result-type' % entry, '%s(%r) returns %r' % (entry, line, r), {'line': line, 'entry': entry})
        return
    part.ok(core.h64((entry, line)), outcome=('list', min(len(r), 3)), sample={'entry': entry, 'line': line, 'candidates': len(r)} if len(part.samples) < 4 and r else None)


def text_space(tier):
    for n in (1, 2, 3):
        for seq in itertools.product(TOK_FULL, repeat=n):
            yield ' '.join(seq)
    for n in (4, 5):
        for seq in itertools.product(TOK_MID, repeat=n):
            yield ' '.join(seq)
    for n in (6, 7, 8) if tier == 'thorough' else (6, 7):
        for seq in itertools.product(TOK_MIN, repeat=n):
            yield ' '.join(seq)
    import re
    for corpus in (CORPUS_INTEL, CORPUS_ATT):
        for line in corpus:
            toks = re.findall(r'[A-Za-z_.$%][A-Za-z0-9_.$()%]*|0x[0-9a-fA-F]+|\d+|\S', line)
            yield line
            for i in range(len(toks)):
                yield ' '.join(toks[:i] + toks[i + 1:])
                yield ' '.join(toks[:i] + [toks[i]] + toks[i:])
            # one more operand than the line has (the last one again, a number, a register)
            if len(toks) > 1:
                last = line.split(',')[-1].strip() if ',' in line else ' '.join(toks[1:])
                for extra in (last, '4', 'eax' if corpus is CORPUS_INTEL else '%eax', 'st' if corpus is CORPUS_INTEL else '%st'):
                    yield line + ', ' + extra
                    yield line + ', ' + extra + ', ' + extra
                if i + 1 < len(toks):
                    yield ' '.join(toks[:i] + [toks[i + 1], toks[i]] + toks[i + 2:])
                for rep in ('[', ']', ',', '-', 'st(9)', '65536', 'PTR'):
                    yield ' '.join(toks[:i] + [rep] + toks[i + 1:])


def shard_text(s, ns, tier, seed):
    ia32 = core.import_x86()
    part = core.Part()
    with core.quiet_stdout():
        for i, line in enumerate(text_space(tier)):
            if (i // 32) % ns != s:
                continue
            text_case(part, ia32, line, 'asm')
            text_case(part, ia32, line, 'asm_att')
    return part


def run(tier, seed):
    t0 = time.time()
    core.import_x86()
    part = core.run_sharded(shard_bytes, (tier, seed), nshards=core.NPROC * 6)
    pt = core.run_sharded(shard_text, (tier, seed), nshards=core.NPROC * 4)
    part.counters['byte_cases'] = part.n
    part.counters['text_cases'] = pt.n
    part.merge(pt)
    rule = ('bytes: every string of S_x86 without any filter (all 256 opcode values per map incl. prefix/escape bytes; %d work units x all ModRM x '
            'SIB classes): dis returns None or an instruction whose length is within the input, whose raw bytes are the consumed prefix and which renders in '
            'both syntaxes; for every distinct decoded instruction: dis of exactly the consumed bytes gives the same result, dis of every shorter '
            'prefix gives None, decoding from bin_stream(pad + bytes [+ tail], offset = 0/1/7) gives the same instruction, instr.offset = offset and '
            'stream.offset = offset + length; no exception may escape, 5 s watchdog. text: all token sequences of length <= 3 over %d tokens, <= 5 over '
            '%d, <= %s over %d, and every single-token deletion/duplication/swap/replacement of %d corpus lines, through asm and asm_att: a list of byte '
            'strings or ValueError; anything else is a violation.' % (len(all_units(tier)), len(TOK_FULL), len(TOK_MID), 8 if tier == 'thorough' else 7,
                                                                      len(TOK_MIN), len(CORPUS_INTEL) + len(CORPUS_ATT)))
    return core.finish('C10', tier, seed, t0, part, rule, exhaustive=True, space={'byte_units': len(all_units(tier))},
                       assumptions=['ValueError is the documented error of both assemblers (parse_ad.p_error / ia32_att.p_error)'])


def replay(w):
    ia32 = core.import_x86()
    part = core.Part()
    with core.quiet_stdout():
        if 'line' in w:
            text_case(part, ia32, w['line'], w['entry'])
        else:
            b = bytes.fromhex(w['bytes'])
            byte_case(part, ia32, b, ((), '1', b[0], b[1] if len(b) > 1 else 0, None), set())
    if part.viols:
        return True, '\n'.join('%s: %s' % (k, v[1]) for k, v in part.viols.items())
    return False, 'ok'
