"""C13 - simplifier output is canonical: idempotent, order-insensitive, seed-independent.
(a) idempotence on a structurally equal FRESH copy of every simplified tree of E(<=2)+T+N
(b) every permutation x every binary bracketing (+ the flat n-ary form) of every multiset of <= 4
    operands from an operand alphabet with tie-twins, for + * ^ & |
(c) the renderings of the whole enumeration, of lifted instruction semantics and of machine dumps
    are produced in separate processes under PYTHONHASHSEED = 0..k and compared line by line."""
import time, sys, os, itertools, subprocess, hashlib
from .. import core, irsem, exprgen as g
from .c05 import children
from .c15 import kind

NEEDS_X86 = True


def simp_fresh(t, H):
    return H.expr_simp(irsem.from_neutral(t))


# ---------------------------------------------------------------------------
def idem_families(tier):
    F = []
    for w in (8, 32) if tier == 'quick' else g.WIDTHS:
        F += [('E1', w), ('T', w), ('N', w)]
    F.append(('E2q', 8))
    if tier == 'thorough':
        F.append(('E2q', 32))
    return F


def enum_family(name, w):
    if name == 'E1':
        return iter(g.E1(w))
    if name == 'T':
        return g.targeted(w)
    if name == 'N':
        return g.near_equal(w)
    if name == 'E2q':
        return g.E2(w, 'min', 'red', pairs='small')
    raise ValueError(name)


def idem_case(part, t, H):
    try:
        with core.watchdog(5):
            s1 = simp_fresh(t, H)
            t1 = irsem.to_neutral(s1)
            str1 = str(s1)
            s2 = simp_fresh(t1, H)
            t2 = irsem.to_neutral(s2)
            str2 = str(s2)
    except Exception as ex:       # exceptions / time-outs of the simplifier are C05's business
        part.skip('simplifier-raises:%s' % type(ex).__name__)
        return
    if t1 != t2 or str1 != str2:
        # reduce to the smallest sub-tree of the once-simplified form that is not stable
        tm = t1
        changed = True
        while changed:
            changed = False
            for c in children(tm):
                try:
                    c1 = irsem.to_neutral(simp_fresh(c, H))
                except Exception:
                    continue
                if c1 != c:
                    tm = c
                    changed = True
                    break
        try:
            again = irsem.show(irsem.to_neutral(simp_fresh(tm, H)))
        except Exception as ex:
            again = repr(ex)
        part.n += 1
        from .c05 import coarse
        part.violation('law=idempotent shape=%s' % coarse(tm),
                       'expr_simp(%s) = %s, which simplifies further to %s (sub-term %s -> %s)' % (
                           irsem.show(t), str1, str2, irsem.show(tm), again),
                       {'tree': t, 'law': 'idempotent'}, irsem.size_nodes(tm))
        return
    part.ok(core.h64(('i', repr(t))), outcome=core.h64(str1))


# ---------------------------------------------------------------------------
def operand_alphabet(w):
    a, b = g.ID('a', w), g.ID('b', w)
    A = [a, b, g.I(w, 3), g.OP('-', a), g.OP('*', a, b) if w > 1 else g.OP('&', a, b), g.COND(a, b, g.I(w, 1)), g.COND(a, b, g.I(w, 0))]
    if w >= 8:
        ad = g.addr_of(w)
        A += [g.MEM(ad, w), g.MEM(ad, w, g.ID('ds', 16)),
              g.CO((g.SL(a, 0, 4), 0, 4), (g.SL(b, 4, w), 4, w)),
              g.SL(g.CO((a, 0, w), (b, w, 2 * w)), 4, 4 + w) if 2 * w <= 64 else g.OP('>>', a, b),
              g.OP('<<', a, g.I(w, 1)), ('id', 'eax', w, False, True),
              g.CO((g.SL(a, 0, 4), 0, 4), (g.SL(a, 4, w // 2), 4, w // 2), (g.SL(b, w // 2, w), w // 2, w)) if w > 8
              else g.CO((g.SL(a, 0, 4), 0, 4), (g.SL(a, 4, 7), 4, 7), (g.SL(b, 7, 8), 7, 8))]
    return A


def bracketings(xs, op):
    """all binary bracketings of the sequence xs"""
    if len(xs) == 1:
        yield xs[0]
        return
    for i in range(1, len(xs)):
        for l in bracketings(xs[:i], op):
            for r in bracketings(xs[i:], op):
                yield g.OP(op, l, r)


def order_space(w, tier):
    A = operand_alphabet(w)
    maxn = 4
    for op in g.ASSOC:
        for n in (2, 3, maxn):
            for ms in itertools.combinations_with_replacement(range(len(A)), n):
                if n == maxn and tier == 'quick' and len(set(ms)) < 2:
                    continue
                yield op, tuple(A[i] for i in ms)


def const_rich_alphabet(w):
    """operands for the constant-folding interplay: identifiers, complement and negation, and the constants the rewrite rules single out
    (0, 1, all-ones, sign bit, the half-width masks) - several constants in one operand list fold in an order the bracketing decides"""
    a, b = g.ID('a', w), g.ID('b', w)
    m = irsem.mask(w)
    ks = [1, m, 1 << (w - 1), 3]
    if w >= 16:
        h = w // 2
        ks += [(1 << h) - 1, m ^ ((1 << h) - 1)]
    return [a, b, g.OP('^', a, g.I(w, m)), g.OP('-', a)] + [g.I(w, k) for k in ks]


def const_rich_space(w, tier):
    A = const_rich_alphabet(w)
    for op in g.ASSOC:
        for n in (3,) if tier == 'quick' else (2, 3, 4):
            for ms in itertools.combinations_with_replacement(range(len(A)), n):
                if len(set(ms)) < 2 or all(A[i][0] == 'int' for i in ms):
                    continue
                yield op, tuple(A[i] for i in ms)


def twin_pairs(w):
    """operand pairs that differ in exactly one field of one node (the ordering key must see every field)"""
    if w < 16:
        return []
    a, b = g.ID('a', w), g.ID('b', w)
    one = g.I(w, 1)
    ad = g.addr_of(w)
    T = [(g.COND(g.SL(a, 0, 4), b, one), g.COND(g.SL(a, 0, 8), b, one)),                    # slice stop
         (g.COND(g.SL(a, 0, 4), b, one), g.COND(g.SL(a, 1, 5), b, one)),                    # slice start
         (g.COND(g.MEM(ad, 8), b, one), g.COND(g.MEM(ad, 16), b, one)),                     # memory size
         (g.COND(g.MEM(ad, 8, g.ID('ds', 16)), b, one), g.COND(g.MEM(ad, 8, g.ID('fs', 16)), b, one)),   # segment
         (g.MEM(ad, w), g.MEM(g.OP('+', ad, g.I(32, 4)), w)),                                # address
         (g.COND(a, b, one), g.COND(a, one, b)),                                             # conditional arms
         (g.COND(a, b, one), g.COND(b, b, one)),                                             # condition
         (g.CO((g.SL(a, 0, 4), 0, 4), (g.SL(b, 4, w), 4, w)), g.CO((g.SL(a, 0, 8), 0, 8), (g.SL(b, 8, w), 8, w))),   # compose bounds
         (g.CO((g.SL(a, 0, 4), 0, 4), (g.SL(b, 4, w), 4, w)), g.CO((g.SL(b, 0, 4), 0, 4), (g.SL(a, 4, w), 4, w))),   # compose parts
         (g.OP('>>', a, b), g.OP('a>>', a, b)), (g.OP('>>', a, b), g.OP('>>', b, a)),        # operator name / argument order
         (g.OP('<<<', a, one), g.OP('>>>', a, one)),
         (g.OP('<<', a, g.SL(b, 0, 8)), g.OP('<<', a, g.SL(b, 8, 16))),                      # slice inside a shift count
         (g.OP('<<', a, g.CO((g.SL(b, 0, 8), 0, 8), (g.I(w - 8, 0), 8, w))), g.OP('<<', a, g.CO((g.SL(b, 0, 4), 0, 4), (g.I(w - 4, 0), 4, w))))]
    if 2 * w <= 64:
        co = g.CO((a, 0, w), (b, w, 2 * w))
        T.append((g.SL(co, 4, 4 + w), g.SL(co, 8, 8 + w)))
    return T


def contexts(w):
    """one-hole contexts: an operand order below any node must not show in the simplified form"""
    a, b = g.ID('a', w), g.ID('b', w)
    one = g.I(w, 1)
    C = [('cond.src1', lambda t: g.COND(a, t, b)), ('cond.src2', lambda t: g.COND(a, b, t)), ('cond.cond', lambda t: g.COND(t, a, one)),
         ('shift.count', lambda t: g.OP('<<', b, t)), ('shift.value', lambda t: g.OP('>>', t, one)), ('neg', lambda t: g.OP('-', t)),
         ('other-op', lambda t: g.OP('*', t, b) if w > 1 else g.OP('&', t, b))]
    if w >= 8:
        C.append(('slice', lambda t: g.SL(t, 0, w // 2)))
        C.append(('compose', lambda t: g.CO((g.SL(t, 0, w // 2), 0, w // 2), (g.SL(b, w // 2, w), w // 2, w))))
    if w == 32:
        C.append(('mem.address', lambda t: g.MEM(t, 8)))
        C.append(('mem.address+4', lambda t: g.MEM(g.OP('+', t, g.I(32, 4)), 32)))
    return C


def context_case(part, op, x, y, w, H):
    v1, v2 = g.OP(op, x, y), g.OP(op, y, x)
    cases = [(nm, f(v1), f(v2)) for nm, f in contexts(w)]
    a = g.ID('a', w)
    cases.append(('cond.both-arms', g.COND(a, v1, v2), g.COND(a, v1, v1)))
    cases.append(('cond.both-arms', g.COND(a, v2, v1), g.COND(a, v1, v1)))
    for nm, t1, t2 in cases:
        try:
            irsem.width(t1, True)
        except Exception:
            continue
        try:
            with core.watchdog(5):
                s1, s2 = simp_fresh(t1, H), simp_fresh(t2, H)
                r1, r2 = (str(s1), irsem.to_neutral(s1)), (str(s2), irsem.to_neutral(s2))
        except Exception as ex:
            part.skip('simplifier-raises:%s' % type(ex).__name__)
            continue
        part.n += 1
        if r1 != r2:
            part.violation('law=order-in-context context=%s op=%s' % (nm, op),
                           'expr_simp(%s) = %s but expr_simp(%s) = %s' % (irsem.show(t1), r1[0], irsem.show(t2), r2[0]),
                           {'law': 'context', 't1': t1, 't2': t2}, irsem.size_nodes(t1))
        else:
            part.keys.add(core.h64(('c', repr(t1), repr(t2))))


def order_case(part, op, ms, H):
    forms = set()
    variants = []
    for perm in set(itertools.permutations(ms)):
        variants.append(g.OP(op, *perm))
        for br in bracketings(list(perm), op):
            variants.append(br)
    res = {}
    first = None
    for v in variants:
        try:
            with core.watchdog(5):
                s = simp_fresh(v, H)
                r = (str(s), irsem.to_neutral(s))
        except Exception as ex:
            part.skip('simplifier-raises:%s' % type(ex).__name__)
            continue
        part.n += 1
        if first is None:
            first = (v, r)
        elif r != first[1]:
            kinds = sorted(set(kind(x) if x[0] != 'op' else 'op' + x[1] for x in ms))
            part.violation('law=order op=%s operands=%s' % (op, '+'.join(kinds)),
                           'expr_simp(%s) = %s but expr_simp(%s) = %s' % (irsem.show(first[0]), first[1][0], irsem.show(v), r[0]),
                           {'law': 'order', 'op': op, 'operands': list(ms)}, sum(irsem.size_nodes(x) for x in ms))
            return
    # the same permutations built over SHARED operand objects and simplified one after the other: a simplifier that
    # rewrites a node of its input in place gives a different form the second time the operand is used
    if first is not None:
        memo = {}

        def shared(t):
            if t not in memo:
                memo[t] = irsem.from_neutral(t)
            return memo[t]
        X = irsem.X()
        for perm in sorted(set(itertools.permutations(ms)), key=repr):
            try:
                with core.watchdog(5):
                    s = H.expr_simp(X.ExprOp(op, *[shared(x) for x in perm]))
                    r = (str(s), irsem.to_neutral(s))
            except Exception as ex:
                part.skip('simplifier-raises:%s' % type(ex).__name__)
                continue
            part.n += 1
            if r != first[1]:
                kinds = sorted(set(kind(x) if x[0] != 'op' else 'op' + x[1] for x in ms))
                part.violation('law=order-shared op=%s operands=%s' % (op, '+'.join(kinds)),
                               'expr_simp(%s) = %s on fresh objects but %s when the operand objects were used in earlier calls (order %s)' % (
                                   irsem.show(first[0]), first[1][0], r[0], irsem.show(g.OP(op, *perm))),
                               {'law': 'order', 'op': op, 'operands': list(ms)}, sum(irsem.size_nodes(x) for x in ms))
                return
    part.keys.add(core.h64(('o', op, repr(ms))))
    if len(part.samples) < 2 and first:
        part.samples.append({'op': op, 'operands': [irsem.show(x) for x in ms], 'variants': len(variants), 'canonical form': first[1][0]})
    part.outcomes.add(core.h64(first[1][0]) if first else 0)


# ---------------------------------------------------------------------------
# (c) seed independence: rendering job executed in a child process per seed

INSTR_HEX = ['01d8', '29d8', '11d8', '19d8', '31d8', '21d8', '09d8', 'f7d8', 'f7d0', '40', '48', 'd3e0', 'd3e8', 'd3f8', 'c1e005', 'd1c0',
             'd3c8', 'd3d0', '0fafc3', 'f7e3', 'f7fb', '0fa3d8', '0fbcc3', '0fbdc3', '0fb6c3', '0fbec3', '0f94c0', '0f4cc3', '93', '0fc1d8',
             '0fb1d8', '8d4c5808', '50', '5b', '60', 'c9', 'a4', 'a6', 'aa', 'ac', 'ae', '7405', 'e805000000', 'ffd0', 'c3', 'c20800',
             '8b442404', '894c2408', '668b03', '8a4301', '0fa4d805', '0fadd8', '98', '99', '9f', '9e', 'f8', 'fd', '0fc8', '86e0',
             '660f6fc1', '0f6fc1', 'd8c1', 'd9c0', 'dd1c24', '0f28c1', 'f30f10c1']


def render_job(what):
    """runs in a child process with a given PYTHONHASHSEED; prints one line per item"""
    out = sys.stdout
    import miasmx.expression.expression_helper as H
    if what.startswith('expr:'):
        _, name, w = what.split(':')
        for i, t in enumerate(enum_family(name, int(w))):
            try:
                s = simp_fresh(t, H)
                out.write('%d\t%s\n' % (i, s))
            except Exception as ex:
                out.write('%d\tEXC %s\n' % (i, type(ex).__name__))
    elif what == 'order':
        for w in (8, 32):
            for i, (op, ms) in enumerate(order_space(w, 'quick')):
                try:
                    out.write('%d.%d\t%s\n' % (w, i, simp_fresh(g.OP(op, *ms), H)))
                except Exception as ex:
                    out.write('%d.%d\tEXC %s\n' % (w, i, type(ex).__name__))
    elif what == 'lift':
        ia32 = core.import_x86()
        from miasmx.tools import emul_helper
        from miasmx.expression.expression import ExprInt32
        for hx in INSTR_HEX:
            b = bytes.fromhex(hx)
            try:
                ins = ia32.x86mnemo.dis(b)
                out.write('%s\tdis\t%s\t%s\n' % (hx, ins, ins.__str__(asm_format='att_syntax binutils')))
                ex = emul_helper.get_instr_expr(ins, ExprInt32(len(b)), [])
                for j, e in enumerate(ex):
                    out.write('%s\tsem%d\t%s\n' % (hx, j, e))
                    out.write('%s\tsimp%d\t%s\n' % (hx, j, H.expr_simp(e.src)))
                    out.write('%s\tr%d\t%s\n' % (hx, j, sorted(str(x) for x in e.get_r(mem_read=True))))
            except Exception as ex:
                out.write('%s\tEXC %s\n' % (hx, type(ex).__name__))
        # machine dumps after short instruction sequences
        seqs = [['01d8', '50', '5b'], ['8b442404', '894c2408', '01d8'], ['31d8', 'd3e0', '0f94c0'], ['89442404', '8b4c2406', '884c2405'],
                ['93', '0fc1d8', 'f7d8'], ['8b4004', '8b4004', '8b4904', '8b4904', '01c8'], ['50', '51', '5b', '58'], ['a4', 'aa', '01d8']]
        for sq in seqs:
            try:
                m = emul_helper.x86_machine()
                ins = [ia32.x86mnemo.dis(bytes.fromhex(h)) for h in sq]
                emul_helper.emul_lines(m, ins)
                for l in m.dump_id():
                    out.write('%s\tid\t%s\n' % ('+'.join(sq), l))
                for l in m.dump_mem():
                    out.write('%s\tmem\t%s\n' % ('+'.join(sq), l))
            except Exception as ex:
                out.write('%s\tEXC %s\n' % ('+'.join(sq), type(ex).__name__))
    out.flush()


def seed_jobs(tier):
    J = ['expr:E1:8', 'expr:E1:32', 'expr:T:8', 'expr:N:8', 'expr:N:32', 'order', 'lift']
    if tier == 'thorough':
        J += ['expr:T:32', 'expr:E1:16', 'expr:E1:64', 'expr:E2q:8']
    return J


def run_seed_job(a):
    what, hs = a
    env = dict(os.environ, PYTHONHASHSEED=str(hs), PYTHONPATH=core.REPO + ':' + core.VERIF)
    r = subprocess.run([sys.executable, '-m', 'mc.props.c13', '--render', what], env=env, cwd=core.VERIF,
                       stdout=subprocess.PIPE, stderr=subprocess.PIPE)
    if r.returncode != 0:
        return (what, hs, None, r.stderr.decode('utf8', 'replace')[-1500:])
    return (what, hs, r.stdout.decode('utf8', 'replace').splitlines(), None)


def shard(s, ns, tier, seed):
    import miasmx.expression.expression_helper as H
    part = core.Part()
    for name, w in idem_families(tier):
        for i, t in enumerate(enum_family(name, w)):
            if (i // 64) % ns != s:
                continue
            idem_case(part, t, H)
    k = 0
    for w in (8, 32, 64) if tier == 'quick' else (8, 16, 32, 64):
        for op, ms in const_rich_space(w, tier):
            k += 1
            if k % ns == s:
                order_case(part, op, ms, H)
    for w in (8, 32) if tier == 'quick' else (8, 32, 16, 64):
        for op, ms in order_space(w, tier):
            k += 1
            if k % ns != s:
                continue
            order_case(part, op, ms, H)
        # tie twins: each pair alone and with a third operand, through the same permutation x bracketing law
        a = g.ID('a', w)
        for op in g.ASSOC:
            for t1, t2 in twin_pairs(w):
                for ms in ((t1, t2), (t1, t2, a), (t1, t1, t2)):
                    k += 1
                    if k % ns == s:
                        order_case(part, op, ms, H)
        # a term, its negation and something that sorts between them (the cancellation rules scan a sorted operand list)
        b_ = g.ID('b', w)
        one_ = g.I(w, 1)
        terms = [g.OP('^', a, b_), g.OP('|', a, b_), g.OP('<<', a, one_), g.OP('>>', a, b_), g.OP('*', a, b_) if w > 1 else g.OP('&', a, b_), g.COND(a, b_, one_)]
        if w >= 8:
            terms += [g.SL(g.CO((a, 0, w), (b_, w, 2 * w)), 4, 4 + w) if 2 * w <= 64 else g.OP('a>>', a, b_), g.MEM(g.addr_of(w), w)]
        for A_ in terms:
            for B_ in operand_alphabet(w) + terms:
                if B_ == A_:
                    continue
                k += 1
                if k % ns == s:
                    order_case(part, '+', (A_, g.OP('-', A_), B_), H)
        A = operand_alphabet(w)
        for op in g.ASSOC:
            for x, y in itertools.combinations(A, 2):
                k += 1
                if k % ns == s:
                    context_case(part, op, x, y, w, H)
    return part


def run(tier, seed):
    t0 = time.time()
    core.import_x86()
    part = core.run_sharded(shard, (tier, seed), nshards=core.NPROC * 4)
    # (c)
    seeds = list(range(4)) if tier == 'quick' else list(range(8))
    jobs = [(j, hs) for j in seed_jobs(tier) for hs in seeds]
    import multiprocessing
    res = {}
    with multiprocessing.get_context('fork').Pool(core.NPROC) as pool:
        for what, hs, lines, err in pool.imap_unordered(run_seed_job, jobs):
            if lines is None:
                core.harness_error('render job %s under PYTHONHASHSEED=%s failed: %s' % (what, hs, err))
            res[(what, hs)] = lines
    nlines = 0
    for what in seed_jobs(tier):
        base = res[(what, seeds[0])]
        nlines += len(base)
        part.n += len(base) * len(seeds)
        for hs in seeds[1:]:
            other = res[(what, hs)]
            if len(other) != len(base):
                part.violation('law=seed job=%s line-count' % what, 'PYTHONHASHSEED=%d gives %d lines, seed %d gives %d' % (
                    seeds[0], len(base), hs, len(other)), {'law': 'seed', 'job': what, 'seeds': [seeds[0], hs]})
                continue
            for l0, l1 in zip(base, other):
                if l0 != l1:
                    cls = l0.split('\t')[1] if what == 'lift' and l0.count('\t') >= 2 else 'expr'
                    cls = ''.join(c for c in cls if not c.isdigit())
                    part.violation('law=seed job=%s item=%s' % (what, cls),
                                   'rendering differs between PYTHONHASHSEED=%d and %d:\n    %s\n    %s' % (seeds[0], hs, l0[:300], l1[:300]),
                                   {'law': 'seed', 'job': what, 'seeds': [seeds[0], hs], 'line': l0.split('\t')[0]})
                    break
        for l in base:
            part.keys.add(core.h64(('s', what, l.split('\t')[0], l.count('\t') and l.split('\t')[1])))
    part.counters['seed_lines_per_seed'] = nlines
    part.counters['hash_seeds'] = len(seeds)
    part.samples.append({'seed_job': 'lift', 'line': res[('lift', seeds[0])][0]})
    rule = ('(a) idempotence: every tree of E1/T/N (+E2 reduced) is simplified, the result is rebuilt as fresh objects (no simp memo) and '
            'simplified again: identical tree and string required. (b) order: for each of + * ^ & | and each multiset of 2..4 operands from '
            'a 12-element alphabet (ids, constant, negation, nested other operator, two conditionals differing in one arm, memory cell with and '
            'without segment, compose, slice, shift, register-flagged id): ALL permutations x ALL binary bracketings + flat form must simplify '
            'to one identical expression. (c) all renderings (simplified enumeration, decoded instruction text in both syntaxes, lifted '
            'semantics, read sets, dump_id/dump_mem after instruction sequences) recomputed in fresh processes under PYTHONHASHSEED=0..%d '
            'and compared line by line. evaluations = simplifier runs + compared lines; distinct = distinct trees / multisets / rendered items' % (len(seeds) - 1))
    return core.finish('C13', tier, seed, t0, part, rule, exhaustive=True,
                       space={'idempotence_families': [list(f) for f in idem_families(tier)], 'hash_seeds': seeds, 'seed_jobs': seed_jobs(tier)},
                       assumptions=['expressions on which the simplifier raises are excluded here (they are C05 violations)',
                                    'structural identity and identical str() are both required'])


def replay(wt):
    import miasmx.expression.expression_helper as H

    def tup(x):
        return tuple(tup(i) for i in x) if isinstance(x, list) else x
    part = core.Part()
    if wt.get('law') == 'idempotent':
        idem_case(part, tup(wt['tree']), H)
    elif wt.get('law') == 'order':
        order_case(part, wt['op'], tuple(tup(x) for x in wt['operands']), H)
    elif wt.get('law') == 'context':
        t1, t2 = tup(wt['t1']), tup(wt['t2'])
        s1, s2 = simp_fresh(t1, H), simp_fresh(t2, H)
        if (str(s1), irsem.to_neutral(s1)) != (str(s2), irsem.to_neutral(s2)):
            return True, 'expr_simp(%s) = %s but expr_simp(%s) = %s' % (irsem.show(t1), s1, irsem.show(t2), s2)
        return False, 'ok'
    else:
        a = run_seed_job((wt['job'], wt['seeds'][0]))
        b = run_seed_job((wt['job'], wt['seeds'][1]))
        diff = [(x, y) for x, y in zip(a[2], b[2]) if x != y]
        if diff:
            return True, 'renderings differ: %s\n%s' % diff[0]
        return False, 'ok'
    if part.viols:
        return True, '\n'.join('%s: %s' % (k, v[1]) for k, v in part.viols.items())
    return False, 'ok'


if __name__ == '__main__':
    if len(sys.argv) >= 3 and sys.argv[1] == '--render':
        # TMPDIR (warm private PLY cache) is inherited from the parent check
        sys.dont_write_bytecode = True
        if sys.path[0] != core.REPO:
            sys.path.insert(0, core.REPO)
        render_job(sys.argv[2])
