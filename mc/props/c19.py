"""C19 - equivalent spellings of an assembly line assemble identically.
For every line of L_asm that asm accepts: every presentation-only rewrite (case of registers / size keywords,
'%' prefix, spacing, number base, sign convention at the operand width, displacement position, term order, st vs
st(0)) singly and (thorough) pairwise must give the same candidate SET; and the AT&T transliteration produced by
binutils (objdump -M att of the GNU as encoding) must give the same set through asm_att."""
import time, sys, itertools
from .. import core, x86ref as R, asmgen as G

NEEDS_X86 = True


def cand_set(f, line):
    try:
        with core.watchdog(5):
            c = f(line)
    except ValueError as ex:
        # the mnemonic-table miss is its own outcome (named by the spelling that is missing), not a parse error
        return 'unknown-mnemonic' if "Mnemonic '" in str(ex) and 'unknown' in str(ex) else 'ValueError'
    except core.Timeout:
        return 'timeout'
    except Exception as ex:
        return 'raises:%s' % type(ex).__name__
    return frozenset(bytes(x) for x in c)


def describe(cs):
    if isinstance(cs, str):
        return cs
    return '{%s}' % ', '.join(sorted(x.hex() for x in cs))[:200]


def shard(s, ns, tier, seed):
    ia32 = core.import_x86()
    asm, asm_att = ia32.x86mnemo.asm, ia32.x86mnemo.asm_att
    part = core.Part()
    vocab = G.vocabulary(ia32)
    accepted = []
    with core.quiet_stdout():
        for i, spec in enumerate(G.specs(vocab, tier)):
            if (i // 512) % ns != s:
                continue
            line = G.render_intel(spec)
            base = cand_set(asm, line)
            if isinstance(base, str) or not base:
                part.skip('not accepted by asm')
                continue
            accepted.append((spec, line, base))
            kd = G.kinds(spec)
            mn = R.canon_mnemo(spec[0])
            rws = G.rewrites(spec)
            variants = [(k, st) for k, st in rws]
            if tier == 'thorough':
                for (k1, s1), (k2, s2) in itertools.combinations(rws, 2):
                    if k1 != k2 and not (set(s1) & set(s2)):
                        st = dict(s1)
                        st.update(s2)
                        variants.append((k1 + '+' + k2, st))
            for kind, style in variants:
                l2 = G.render_styled(spec, style)
                if l2 == line:
                    continue
                got = cand_set(asm, l2)
                part.n += 1
                if got == base:
                    part.keys.add(core.h64((line, l2)))
                    part.outcomes.add(core.h64(kind))
                    if len(part.samples) < 3 and kind not in [x.get('rewrite') for x in part.samples]:
                        part.samples.append({'rewrite': kind, 'l1': line, 'l2': l2, 'candidates': len(base)})
                else:
                    how = got if isinstance(got, str) else ('rejected' if not got else 'differs')
                    part.violation('rewrite=%s mnemo=%s ops=%s how=%s' % (kind, mn, kd, how),
                                   'asm(%r) = %s but asm(%r) = %s' % (line, describe(base), l2, describe(got)),
                                   {'l1': line, 'l2': l2, 'e1': 'asm', 'e2': 'asm'}, size=len(line))
    # Intel <-> AT&T through binutils' transliteration
    if accepted:
        gas = R.gas_batch([a[1] for a in accepted], 'intel')
        good = [(a, g) for a, g in zip(accepted, gas) if g]
        att = R.objdump_batch([g for a, g in good], syntax='att')
        gint = R.objdump_batch([g for a, g in good])
        atts = R.objdump_batch([g for a, g in good], syntax='att-suffix')
        triples = [(ag, od, oi, 'intel<->att') for ag, od, oi in zip(good, att, gint)]
        # binutils' second transliteration: mnemonic suffix always written (objdump -M att,suffix)
        triples += [(ag, od, oi, 'intel<->att-suffix') for ag, od, od0, oi in zip(good, atts, att, gint) if od is not None and od0 is not None and od[1] != od0[1]]
        with core.quiet_stdout():
            for (a, g), od, oi, tkind in triples:
                spec, line, base = a
                if od is None or od[1] is None or od[0] != len(g) or '(bad)' in od[1] or '<' in od[1]:
                    part.skip('no AT&T transliteration')
                    continue
                try:
                    nf, _ = R.parse_intel(oi[1], addr=0, length=oi[0], source='od')
                    if any(o[0] == 'rel' for o in nf.ops):
                        part.skip('direct branch (address dependent text)')
                        continue
                except R.Unparsable:
                    pass
                if g not in base:
                    part.skip('GNU as encoding not among the Intel candidates (C02/C03 business)')
                    continue
                got = cand_set(asm_att, od[1])
                part.n += 1
                if got == base:
                    for akind, l3 in att_rewrites(od[1]):
                        g3 = cand_set(asm_att, l3)
                        part.n += 1
                        if g3 == base:
                            part.keys.add(core.h64((od[1], l3)))
                            part.outcomes.add(core.h64(akind))
                        else:
                            how = g3 if isinstance(g3, str) else ('rejected' if not g3 else 'differs')
                            part.violation('rewrite=%s mnemo=%s ops=%s how=%s' % (akind, R.canon_mnemo(spec[0]), G.kinds(spec), how),
                                           'asm_att(%r) = %s but asm_att(%r) = %s' % (od[1], describe(base), l3, describe(g3)),
                                           {'l1': od[1], 'l2': l3, 'e1': 'asm_att', 'e2': 'asm_att'}, size=len(line))
                if got == base:
                    part.keys.add(core.h64((line, od[1])))
                    part.outcomes.add(core.h64(tkind))
                    if len(part.samples) < 5 and tkind not in [x.get('rewrite') for x in part.samples]:
                        part.samples.append({'rewrite': tkind, 'l1': line, 'l2': od[1], 'candidates': len(base)})
                else:
                    how = got if isinstance(got, str) else ('rejected' if not got else ('subset' if got < base else 'superset' if got > base else 'differs'))
                    sig = 'rewrite=%s mnemo=%s ops=%s how=%s' % (tkind, R.canon_mnemo(spec[0]), G.kinds(spec), how)
                    if how in ('unknown-mnemonic', 'raises:KeyError'):      # a mnemonic-table miss: named by the spelling, not by the operands
                        sig = 'rewrite=%s att-mnemo=%s how=%s' % (tkind, ' '.join(w for w in od[1].split() if not w.startswith(('%', '$', '(', '*', '-', '0')) and ',' not in w), how)
                    part.violation(sig,
                                   'asm(%r) = %s but asm_att(%r) = %s' % (line, describe(base), od[1], describe(got)),
                                   {'l1': line, 'l2': od[1], 'e1': 'asm', 'e2': 'asm_att'}, size=len(line))
    if s == 0:
        with core.quiet_stdout():
            bracket_forms(part, asm)
            att_constant_forms(part, asm_att)
    return part


def att_rewrites(text):
    """presentation-only rewrites of an AT&T line as printed by objdump"""
    import re
    out = []
    m = re.match(r'^(\S+)(\s+)(.*)$', text)
    if not m:
        return out
    mn, gap, ops = m.groups()
    # split at top-level commas
    parts, depth, cur = [], 0, ''
    for ch in ops:
        if ch == '(':
            depth += 1
        elif ch == ')':
            depth -= 1
        if ch == ',' and depth == 0:
            parts.append(cur)
            cur = ''
        else:
            cur += ch
    parts.append(cur)
    if len(parts) >= 2:
        out.append(('att-spacing', mn + ' ' + ', '.join(p.strip() for p in parts)))
        out.append(('att-spacing', mn + '\t' + ' ,  '.join(p.strip() for p in parts)))
    dec = re.sub(r'(?<![\w%])(-?)0x([0-9a-f]+)', lambda k: k.group(1) + str(int(k.group(2), 16)), text)
    if dec != text:
        out.append(('att-number-base', dec))
    if re.match(r'^set[a-z]+$', mn) and not mn.endswith('bb') and mn not in ('setb', 'setnb') or mn in ('setb', 'setnb'):
        # the optional b suffix of setcc (setbb = setb with suffix)
        out.append(('att-setcc-suffix', mn + 'b' + gap + ops))
    base = mn.rstrip('bwl') if mn not in ('xchg', 'test') else mn
    if base in ('xchg', 'test') and len(parts) == 2 and ('(' in ops or ':' in ops) and '$' not in ops:
        # both operand orders of xchg/test denote the same instruction (and GNU as encodes them identically)
        out.append(('att-operand-order', mn + gap + parts[1].strip() + ',' + parts[0].strip()))
    return out


ATT_CONST_PAIRS = [('$(a-b)-4', '$a-b-4'), ('$(a-b)+4', '$a-b+4'), ('$(a-b)-1', '$a-b-1'), ('$(a-b)-100', '$a-b-100'), ('$(a-b)', '$a-b'),
                   ('$8-4', '$4'), ('$(8-4)', '$4'), ('$4+4', '$8'), ('$16-8-4', '$4'), ('$-4+8', '$4'), ('$a+4', '$4+a'), ('$a-4', '$-4+a')]


def att_constant_forms(part, asm_att):
    """AT&T constant expressions (symbol differences, parentheses, sums): two spellings of one constant"""
    for e1, e2 in ATT_CONST_PAIRS:
        for tmpl in ('movl %s, %%eax', 'pushl %s', 'addl %s, %%ecx', 'leal %s(%%eax,%%ebx,2), %%ecx', 'movl %s(%%ebx), %%eax'):
            x1, x2 = (e1, e2) if '(%' not in tmpl else (e1.lstrip('$'), e2.lstrip('$'))
            l1, l2 = tmpl % x1, tmpl % x2
            base = cand_set(asm_att, l2)
            if isinstance(base, str) or not base:
                part.skip('not accepted by asm_att')
                continue
            got = cand_set(asm_att, l1)
            part.n += 1
            if got == base:
                part.keys.add(core.h64((l1, l2)))
                part.outcomes.add(core.h64('att-constant'))
            else:
                how = got if isinstance(got, str) else ('rejected' if not got else 'differs')
                part.violation('rewrite=att-constant-expression form=%s how=%s' % (e1.replace('a', 'sym').replace('b', 'sym'), how),
                               'asm_att(%r) = %s but asm_att(%r) = %s' % (l2, describe(base), l1, describe(got)),
                               {'l1': l2, 'l2': l1, 'e1': 'asm_att', 'e2': 'asm_att'}, size=len(l1))


BRACKET_ADDR = ['ebx', 'ebx+esi*2', 'eax*4', 'esp', 'ebp+edi']


def bracket_forms(part, asm):
    """the six bracket productions: [e]  N[e]  -N[e]  sym[e]  N+sym[e]  -N+sym[e], against the all-inside spelling"""
    for mn, dst, kw in (('mov', 'eax', 'DWORD PTR '), ('lea', 'eax', ''), ('mov', 'cl', 'BYTE PTR '), ('add', 'dx', 'WORD PTR ')):
        for ad in BRACKET_ADDR:
            for n in (4, 8, 127, 128, 0x1234):
                groups = [
                    ('number', '[%s+%d]' % (ad, n), ['%d[%s]' % (n, ad), '[%d+%s]' % (n, ad), '0x%x[%s]' % (n, ad)]),
                    ('minus-number', '[%s-%d]' % (ad, n), ['-%d[%s]' % (n, ad), '-0x%x[%s]' % (n, ad)]),
                    ('symbol', '[%s+foo]' % ad, ['foo[%s]' % ad, '[foo+%s]' % ad]),
                    ('number+symbol', '[%s+foo+%d]' % (ad, n), ['%d+foo[%s]' % (n, ad), 'foo[%s+%d]' % (ad, n), '[foo+%s+%d]' % (ad, n), '[%d+foo+%s]' % (n, ad)]),
                    ('minus-number+symbol', '[%s+foo-%d]' % (ad, n), ['-%d+foo[%s]' % (n, ad), 'foo[%s-%d]' % (ad, n), '[foo+%s-%d]' % (ad, n)]),
                ]
                if n in (4, 128):
                    groups.append(('constant-arithmetic', '[%s+%d]' % (ad, n), ['[%s+%d-%d]' % (ad, 2 * n, n), '[%s-%d+%d]' % (ad, n, 2 * n), '[%d+%s-%d]' % (2 * n, ad, n),
                                                                               '[%s+%d+%d]' % (ad, n // 2, n // 2), '[%s+%d-%d-%d]' % (ad, 4 * n, 2 * n, n)]))
                    groups.append(('constant-arithmetic', '[%s-%d]' % (ad, n), ['[%s-%d+%d]' % (ad, 2 * n, n), '[%s+%d-%d]' % (ad, n, 2 * n), '[%s-%d-%d]' % (ad, n // 2, n // 2)]))
                if n == 4:
                    # the outer displacement in the unsigned 32-bit convention plus a positive inner one (the sum wraps)
                    groups.append(('outer-wrap', '[%s+4]' % ad, ['0xFFFFFFFC[%s+8]' % ad, '4294967292[%s+8]' % ad, '[%s+8+0xFFFFFFFC]' % ad, '0xFFFFFFFF[%s+5]' % ad,
                                                                 '0xFFFFFF04[%s+0x100]' % ad]))
                for kind, inside, variants in groups:
                    if kind == 'symbol' and n != 4:
                        continue
                    l1 = '%s %s, %s%s' % (mn, dst, kw, inside)
                    base = cand_set(asm, l1)
                    if isinstance(base, str) or not base:
                        part.skip('not accepted by asm')
                        continue
                    for v in variants:
                        l2 = '%s %s, %s%s' % (mn, dst, kw, v)
                        got = cand_set(asm, l2)
                        part.n += 1
                        if got == base:
                            part.keys.add(core.h64((l1, l2)))
                            part.outcomes.add(core.h64('bracket-' + kind))
                        else:
                            how = got if isinstance(got, str) else ('rejected' if not got else 'differs')
                            part.violation('rewrite=bracket-form:%s mnemo=%s how=%s' % (kind, mn, how),
                                           'asm(%r) = %s but asm(%r) = %s' % (l1, describe(base), l2, describe(got)),
                                           {'l1': l1, 'l2': l2, 'e1': 'asm', 'e2': 'asm'}, size=len(l1))


def run(tier, seed):
    t0 = time.time()
    core.import_x86()
    part = core.run_sharded(shard, (tier, seed), nshards=core.NPROC * 8)
    rule = ('for every line of L_asm (vocabulary x operand-shape alphabet, arity 0..2) that asm accepts: every applicable presentation-only rewrite '
            '(registers upper-case, % prefix, size keyword lower/mixed case, 5 spacing variants, decimal/0x/0X numbers, v <-> v-2^w at the operand '
            'width the line fixes, disp[reg] / [disp+reg] / [reg+disp], index-first and scale-first term order, st <-> st(0)) singly (thorough: also '
            'all compatible pairs) must produce the identical candidate set; the AT&T transliteration by binutils (objdump -M att of the GNU as '
            'encoding, when that encoding is among the Intel candidates) must produce the identical set through asm_att. evaluations = rewritten '
            'lines assembled; distinct = distinct (line, spelling) pairs')
    return core.finish('C19', tier, seed, t0, part, rule, exhaustive=True,
                       assumptions=['metamorphic (no oracle) for Intel spellings; binutils provides the AT&T transliteration',
                                    'two unscaled registers are never reordered (base/index roles would be a choice)'])


def replay(w):
    ia32 = core.import_x86()
    f = {'asm': ia32.x86mnemo.asm, 'asm_att': ia32.x86mnemo.asm_att}
    with core.quiet_stdout():
        a = cand_set(f[w['e1']], w['l1'])
        b = cand_set(f[w['e2']], w['l2'])
    return a != b, '%s(%r) = %s ; %s(%r) = %s' % (w['e1'], w['l1'], describe(a), w['e2'], w['l2'], describe(b))
