"""C07 - the symbolic machine state equals sequential execution, including overlapping memory.
Explicit-state search over the REAL emul_lines / eval_instr:
 (1) BFS over instruction sequences (alphabet encoded by GNU as, decoded by x86mnemo.dis) with canonical-state
     de-duplication; in every state, for two valuations of the initial symbols, every register expression and every
     memory read-back (8/16/32 bits over the touched windows) must evaluate (irsem) to what a concrete little-endian
     byte machine running the same lifted IR holds.
 (2) ALL store/load histories: <= 2 stores (thorough 3) + 1 load, widths 8/16/32, offsets 0..7, constant and symbolic base.
 (3) rep-prefixed string instructions with a concrete count against the architectural loop."""
import time, sys, itertools
from .. import core, irsem, x86ref as R

NEEDS_X86 = True

ALPHABET = [
    'mov eax, ebx', 'mov ebx, 0x11223344', 'mov cl, 0x7f', 'mov ah, bl', 'add eax, ebx', 'sub ebx, 1', 'xor eax, eax', 'inc ecx', 'shl eax, 4',
    'xchg eax, ecx', 'lea edx, [eax+ebx*2+8]', 'push eax', 'pop ebx', 'mov DWORD PTR [esp+4], eax', 'mov ecx, DWORD PTR [esp+2]',
    'mov DWORD PTR [esi], eax', 'mov WORD PTR [esi+2], bx', 'mov BYTE PTR [esi+1], cl', 'mov eax, DWORD PTR [esi]', 'mov ax, WORD PTR [esi+3]',
    'mov dl, BYTE PTR [esi+5]', 'movzx eax, BYTE PTR [esi+1]', 'mov DWORD PTR [0x1000], eax', 'mov bx, WORD PTR [0x1002]',
    'mov BYTE PTR [esi], cl', 'mov DWORD PTR [esi+4], ebx', 'mov eax, DWORD PTR [esi+2]', 'stosd', 'lodsb', 'movsb',
    # sub-register writes of a register holding a constant, under a symbolic flag (concatenation of constants and a conditional)
    'mov eax, 0x11223344', 'test ecx, ecx', 'sete ah', 'setne bl', 'cmovz ax, bx', 'adc ah, 0',
    'mov ah, 0x55', 'mov al, bl',
    # (38..) used by the small-alphabet jobs only: byte/word register moves (slices of one source shared between registers) ...
    'mov bh, ah', 'mov cl, al', 'mov ch, bh', 'mov bl, al', 'mov al, bh', 'mov ah, bl', 'mov bx, ax', 'mov ax, cx',
    # ... and logic + shift on sub-registers with masks keeping the sign bit and counts at / beyond the operand width
    'and al, 0x80', 'sar al, 8', 'and ax, 0x8001', 'sar ax, 17', 'shr al, 8', 'sar eax, 31', 'and eax, 0x80000000', 'sar al, 7', 'shl al, 8', 'or al, 0x80',
    'and bl, 0x81', 'sar bl, 1', 'shr ax, 16', 'rol al, 8', 'sar ah, 9',
]
NFULL = 38          # the depth-3/4 searches run over ALPHABET[:NFULL]
QUICK_ALPHABET = [0, 1, 3, 4, 11, 12, 13, 14, 15, 16, 17, 18, 19, 21, 22, 23, 24, 26, 30, 31, 32, 36, 37]
BASES = {'esp': 0x00100000, 'esi': 0x00200000, 'edi': 0x00300000}
GPR = ['eax', 'ebx', 'ecx', 'edx', 'esi', 'edi', 'esp', 'ebp']
FLAGNAMES = ['zf', 'nf', 'pf', 'of', 'cf', 'af', 'df']

_enc = None


def encoded():
    global _enc
    if _enc is None:
        enc = R.gas_batch(ALPHABET, 'intel')
        if any(e is None for e in enc):
            core.harness_error('GNU as rejects an alphabet line: %s' % [l for l, e in zip(ALPHABET, enc) if e is None])
        _enc = enc
    return _enc


def valuations(seed, extra=False):
    vs = []
    pats = ((0x01020304, 0x80000000, 0xfffffffe, 0x7fffffff, 0x12345678), (0xdeadbeef, 1, 0, 0xffffffff, 0x00ff00ff))
    if extra:       # every byte of every register with its top bit set (sign-sensitive sub-register paths)
        pats = pats + ((0x8081c0ff, 0xff80a07f, 0x80f08081, 0xc3a5e1f0, 0x818283f4),)
    for k, pat in enumerate(pats):
        v = {}
        for i, r in enumerate(GPR):
            v['init_' + r] = BASES[r] + 0x40 * k if r in BASES else pat[(i + k) % len(pat)]
        for i, f in enumerate(FLAGNAMES):
            v['init_' + f] = (i + k) & 1
        v['init_df'] = 0
        v['_salt'] = 3 + k
        vs.append(v)
    return vs


class Concrete(object):
    """byte-addressed little-endian machine executing the lifted assignment lists under irsem"""
    def __init__(self, val):
        self.regs = {}
        for n, x in val.items():
            if n.startswith('init_'):
                self.regs[n[5:]] = x
        self.regs.update({'cs': 9, 'dr7': 0, 'es': 0, 'ds': 0, 'ss': 0, 'fs': 0, 'gs': 0})
        self.mem = {}
        self.salt = val['_salt']

    def env(self):
        return irsem.Env(self.regs, self.mem, self.salt)

    def step(self, lifted):
        env = self.env()
        writes = []
        for t in lifted:
            dst, src = t[1], t[2]
            v = irsem.ev_int(src, env)
            if dst[0] == 'id':
                writes.append(('id', dst[1], v & irsem.mask(dst[2])))
            else:
                writes.append(('mem', irsem.ev_int(dst[1], env) & 0xffffffff, dst[2], v))
        for w in writes:
            if w[0] == 'id':
                if w[1] != 'eip':
                    self.regs[w[1]] = w[2]
            else:
                for i in range(w[2] // 8):
                    self.mem[(w[1] + i) & 0xffffffff] = (w[3] >> (8 * i)) & 0xff

    def read(self, a, size):
        return self.env().read(a & 0xffffffff, size)


class NoConcrete(Exception):
    pass


def lift_neutral(ctx, b):
    ins = ctx['ia32'].x86mnemo.dis(b)
    if ins is None:
        raise NoConcrete('dis')
    lst = ctx['eh'].get_instr_expr(ins, ctx['X'].ExprInt32(len(b)), [])
    return [irsem.to_neutral(e) for e in lst]


def sym_value(expr, val, X):
    """evaluate a symbolic state expression under a valuation of the initial symbols (initial memory for unknown cells)"""
    t = irsem.to_neutral(expr)
    ids = {k: v for k, v in val.items() if not k.startswith('_')}
    ids.update({'cs': 9, 'dr7': 0, 'es': 0, 'ds': 0, 'ss': 0, 'fs': 0, 'gs': 0, 'init_cr0': 0})
    return irsem.ev_int(t, irsem.Env(ids, {}, val['_salt']))


def windows(hist_lines):
    """(base register or None, offsets) to read back"""
    W = []
    txt = ' '.join(hist_lines)
    if 'esp' in txt or 'push' in txt or 'pop' in txt:
        W.append(('esp', range(-8, 12)))
    if 'esi' in txt or 'lods' in txt or 'movs' in txt:
        W.append(('esi', range(-3, 12)))
    if 'edi' in txt or 'stos' in txt or 'movs' in txt:
        W.append(('edi', range(-4, 8)))
    if '0x100' in txt:
        W.append((None, range(0x1000 - 3, 0x1000 + 8)))
    return W


def check_state(ctx, machine, hist, seed, extra=False):
    """returns None or (location, detail).  hist: list of alphabet indices"""
    X, sem = ctx['X'], ctx['sem']
    enc = encoded()
    lines = [ALPHABET[i] for i in hist]
    for val in valuations(seed, extra):
        cm = Concrete(val)
        try:
            for i in hist:
                cm.step(lift_neutral(ctx, enc[i]))
        except (irsem.Unsupported, irsem.Undefined, NoConcrete, KeyError) as ex:
            return ('skip', 'reference cannot execute: %r' % (ex,))
        for r in GPR + FLAGNAMES:
            reg = getattr(sem, r)
            try:
                v = sym_value(machine.pool[reg], val, X)
            except (irsem.Unsupported, KeyError, irsem.IllTyped, IndexError, TypeError, ValueError) as ex:
                return ('reg:' + ('gpr' if r in GPR else 'flag'), 'state expression of %s cannot be evaluated: %s = %r' % (r, machine.pool[reg], ex))
            if v & irsem.mask(reg.size) != cm.regs[r] & irsem.mask(reg.size):
                return ('reg:' + ('gpr' if r in GPR else 'flag'), '%s = %s evaluates to %#x, sequential execution gives %#x' % (r, str(machine.pool[reg])[:120], v, cm.regs[r]))
        for base, offs in windows(lines):
            for off in offs:
                for w in (8, 16, 32):
                    if base is None:
                        ad = X.ExprInt32(off)
                        cad = off
                    else:
                        b0 = sem.init_regs[getattr(sem, base)]
                        ad = X.ExprOp('+', b0, X.ExprInt32(off)) if off else b0
                        cad = val['init_' + base] + off
                    try:
                        with core.watchdog(5):
                            e = machine.eval_expr(X.ExprMem(ad, w), {})
                        v = sym_value(e, val, X)
                    except core.Timeout:
                        return ('read-back:error %s' % cell_geometry(machine, val, X, cad, w), 'eval_expr(@%d[%s]) does not terminate' % (w, ad))
                    except Exception as ex:
                        return ('read-back:error %s' % cell_geometry(machine, val, X, cad, w),
                                'read-back @%d[%s%+d] raises %r' % (w, base or 'const', off if base else off - 0x1000, ex))
                    exp = cm.read(cad, w)
                    if v != exp:
                        return ('read-back:value %s' % cell_geometry(machine, val, X, cad, w),
                                'read-back @%d[%s] = %s evaluates to %#x, the byte machine holds %#x' % (w, ad, str(e)[:100], v, exp))
    return None


def cell_geometry(machine, val, X, cad, w):
    """relation of the read interval to every stored cell it touches (sorted): names the overlap case"""
    rels = []
    for k, (cell, v) in machine.pool.pool_mem.items():
        try:
            a = sym_value(k, val, X)
        except Exception:
            continue
        r = rel((cad & 0xffffffff, w // 8), (a, cell.size // 8))
        if r != 'disjoint':
            rels.append(r)
    # the SET of overlap relations (no multiplicities, no cell sizes): longer histories build ever more cell layouts, the
    # reconstruction cases they exercise are these; exact layouts of <= 2 (thorough 3) stores are the storeload family's business
    return 'geometry=r%d:%s' % (w, '+'.join(sorted(set(rels))) or 'untouched')


def shape(line):
    import re
    s = re.sub(r'0x[0-9a-f]+|\b\d+\b', 'N', line)
    s = re.sub(r'\b(e[abcd]x|e[sd]i|ebp)\b', 'r32', s)
    s = re.sub(r'\b([abcd][lh])\b', 'r8', s)
    s = re.sub(r'\b([abcd]x)\b', 'r16', s)
    return s


def canon_state(machine):
    return core.h64('\n'.join(machine.dump_id() + machine.dump_mem()))


def explore_one(ctx, part, h2, seed, extra=False):
    """emulate the history on a fresh machine, check the invariant; returns the canonical state key, or None if the
    state must not be expanded (emulation raises / invariant fails / reference cannot execute)"""
    ia32, eh = ctx['ia32'], ctx['eh']
    enc = encoded()
    m = eh.x86_machine()
    try:
        with core.watchdog(20):
            ins = [ia32.x86mnemo.dis(enc[i]) for i in h2]
            eh.emul_lines(m, ins)
    except Exception as ex:
        part.n += 1
        part.transitions += 1
        part.violation('seq=[%s] loc=emulation-raises:%s' % (' | '.join(shape(ALPHABET[i]) for i in h2), type(ex).__name__),
                       'emul_lines(%s) raises %r' % ([ALPHABET[i] for i in h2], ex), {'history': list(h2), 'kind': 'seq'}, size=len(h2))
        return None
    part.transitions += 1
    part.traces += 1
    key = canon_state(m)
    r = check_state(ctx, m, h2, seed, extra)
    part.n += 1
    if r is None:
        part.keys.add(core.h64(h2))
        if len(part.samples) < 2 and len(h2) > 1:
            part.samples.append({'sequence': [ALPHABET[i] for i in h2], 'state_digest': key})
    elif r[0] == 'skip':
        part.skips[r[1][:60]] += 1
        return None
    else:
        if r[0].startswith('read-back'):
            sig = 'mem %s' % r[0]
        elif len(h2) > 4:
            # long histories: named by the set of instruction shapes and the location, not by the exact sequence
            sig = 'long seq={%s} loc=%s' % (' | '.join(sorted(set(shape(ALPHABET[i]) for i in h2))), r[0])
        else:
            sig = 'seq=[%s] loc=%s' % (' | '.join(shape(ALPHABET[i]) for i in h2), r[0])
        part.violation(sig, 'after %s: %s' % ([ALPHABET[i] for i in h2], r[1]), {'history': list(h2), 'kind': 'seq'}, size=len(h2))
        return None            # a state in which the invariant fails is not expanded
    return key


def bfs(ctx, part, alpha, depth, seed, s, ns, split=1, extra=False):
    """level-synchronous BFS; level `split` is partitioned over the shards (by position), each shard explores its sub-trees.
    Levels above the split are re-walked by every shard (they must rebuild the frontier) but recorded by shard 0 only."""
    seen = set()
    frontier = [()]
    for d in range(1, depth + 1):
        nxt = []
        pos = 0
        for h in frontier:
            for a in alpha:
                h2 = h + (a,)
                pos += 1
                if d == split and pos % ns != s:
                    continue
                if d < split and s != 0:
                    key = explore_one(ctx, core.Part(), h2, seed, extra)       # rebuild only: nothing recorded
                else:
                    key = explore_one(ctx, part, h2, seed, extra)
                if key is None or key in seen:
                    continue
                seen.add(key)
                if d >= split or s == 0:
                    part.states += 1
                nxt.append(h2)
        frontier = nxt


# deep histories over small interacting alphabets (indices into ALPHABET): (alphabet, quick depth, thorough depth)
LONG_JOBS = [
    ([4, 9], 10, 12),              # add eax, ebx | xchg eax, ecx
    ([11, 12, 9], 6, 8),           # push eax | pop ebx | xchg eax, ecx
    ([3, 4, 8, 9], 5, 6),          # mov ah, bl | add eax, ebx | shl eax, 4 | xchg eax, ecx
    ([15, 18, 4, 9], 5, 6),        # mov [esi], eax | mov eax, [esi] | add eax, ebx | xchg eax, ecx
    ([5, 7, 37, 36, 0], 4, 6),     # sub ebx, 1 | inc ecx | mov al, bl | mov ah, 0x55 | mov eax, ebx
    ([38, 39, 40, 41, 42, 43, 44, 45, 0], 3, 4),                                   # byte / word register moves | mov eax, ebx
    ([46, 47, 48, 49, 50, 51, 52, 53, 54, 55, 56, 57, 58, 59, 60, 37, 30], 2, 3),   # sub-register logic and shifts | mov al, bl | mov eax, 0x11223344
]


# ---------------------------------------------------------------------------
def rel(a, b):
    """relation of byte interval a to b ((offset, nbytes))"""
    a0, a1, b0, b1 = a[0], a[0] + a[1], b[0], b[0] + b[1]
    if a1 <= b0 or b1 <= a0:
        return 'disjoint'
    if (a0, a1) == (b0, b1):
        return 'equal'
    if a0 >= b0 and a1 <= b1:
        return 'inside%s' % ('@start' if a0 == b0 else '@end' if a1 == b1 else '')
    if b0 >= a0 and b1 <= a1:
        return 'contains%s' % ('@start' if a0 == b0 else '@end' if a1 == b1 else '')
    return 'overlaps-low' if a0 < b0 else 'overlaps-high'


def storeload_case(ctx, part, base, stores, load):
    X, EA = ctx['X'], ctx['EA']
    basee = X.ExprInt32(0x1000) if base == 'const' else ctx['sem'].init_regs[ctx['sem'].esi]
    m = EA.eval_abs({}, log=ctx['log'])
    vals = {}
    cm = {}
    bval = 0x1000 if base == 'const' else BASES['esi']
    try:
        with core.watchdog(10):
            for k, (off, w) in enumerate(stores):
                sym = X.ExprId('v%d' % k, w, True)
                vals['v%d' % k] = (0x11 * (k + 1)) * 0x01010101 & irsem.mask(w) ^ (0xA5C3F00F >> k) & irsem.mask(w)
                ad = X.ExprOp('+', basee, X.ExprInt32(off)) if off else basee
                m.eval_instr([X.ExprAff(X.ExprMem(ad, w), sym)])
                for i in range(w // 8):
                    cm[bval + off + i] = (vals['v%d' % k] >> (8 * i)) & 0xff
            off, w = load
            ad = X.ExprOp('+', basee, X.ExprInt32(off)) if off else basee
            e = m.eval_expr(X.ExprMem(ad, w), {})
    except core.Timeout:
        return ('error', 'does not terminate')
    except Exception as ex:
        return ('error', 'raises ' + repr(ex)[:100])
    ids = dict(vals)
    ids['init_esi'] = BASES['esi']
    try:
        v = irsem.ev_int(irsem.to_neutral(e), irsem.Env(ids, {}, 5))
    except Exception as ex:
        return ('error', 'result %s cannot be evaluated: %r' % (str(e)[:100], ex))
    exp = irsem.Env({}, cm, 5).read(bval + off, w)
    if v != exp:
        return ('value', 'load gives %s = %#x, byte memory holds %#x' % (str(e)[:120], v, exp))
    return None


ACC3_QUICK = [(0, 32), (4, 32), (2, 32), (2, 16), (1, 8), (0, 16), (4, 16), (3, 8)]


def storeload_space(tier):
    acc = [(off, w) for w in (8, 16, 32) for off in range(8)]
    nst = (1, 2) if tier == 'quick' else (1, 2, 3)
    for base in ('const', 'sym'):
        for n in nst:
            for stores in itertools.product(acc, repeat=n):
                for load in acc:
                    yield base, stores, load
        if tier == 'quick':         # three stores over a reduced store alphabet (a store that overlaps two earlier cells)
            for stores in itertools.product(ACC3_QUICK, repeat=3):
                for load in acc:
                    yield base, stores, load


def geometry(stores, load):
    L = (load[0], load[1] // 8)
    S = [(o, w // 8) for o, w in stores]
    parts = ['L-S%d:%s' % (i + 1, rel(L, s)) for i, s in enumerate(S)]
    for i in range(len(S)):
        for j in range(i + 1, len(S)):
            parts.append('S%d-S%d:%s' % (j + 1, i + 1, rel(S[j], S[i])))
    return ' '.join(parts)


# ---------------------------------------------------------------------------
def rep_cases(tier='quick'):
    # F2 in front of a string instruction without termination test repeats exactly like F3 (the decoder prints '[0xf2] stosb')
    for op, hx in (('stosb', 'f3aa'), ('movsb', 'f3a4'), ('stosd', 'f3ab'), ('repe cmpsb', 'f3a6'), ('repne scasb', 'f2ae'),
                   ('lodsb', 'f3ac'), ('stosb/f2', 'f2aa'), ('movsb/f2', 'f2a4'), ('stosd/f2', 'f2ab'), ('lodsb/f2', 'f2ac')):
        for n in (0, 1, 2, 3):
            for df in (0, 1):
                for pre in (0, 1, 2):
                    yield op, hx, n, df, pre
    # the runaway guard of the rep loop: counts at its boundary
    yield 'stosb', 'f3aa', 0x1000, 0, 0
    if tier == 'thorough':
        yield 'stosb', 'f3aa', 0xfff, 0, 0
        yield 'stosb', 'f3aa', 0x1001, 0, 0
        yield 'movsb', 'f3a4', 0x1000, 1, 0


def rep_case(ctx, op, hx, n, df, pre):
    """mov ecx,N; cld|std; <concrete bytes at [esi..] and [edi..]>; rep op  -- against the architectural loop"""
    X, eh, ia32, sem = ctx['X'], ctx['eh'], ctx['ia32'], ctx['sem']
    m = eh.x86_machine()
    val = valuations(0)[0]
    cm = Concrete(val)
    setup = [X.ExprAff(sem.ecx, X.ExprInt32(n)), X.ExprAff(sem.df, X.ExprInt(X.tab_uintsize[1](df))), X.ExprAff(sem.eax, X.ExprInt32(0x00000002)),
             X.ExprAff(sem.esi, X.ExprInt32(0x3000)), X.ExprAff(sem.edi, X.ExprInt32(0x2000))]
    cm.regs.update({'ecx': n, 'df': df, 'eax': 2, 'esi': 0x3000, 'edi': 0x2000})
    # concrete memory so that the termination test of cmps/scas can fire at position `pre`
    for k in range(-4, 5):
        a = 1 if (op.startswith('repe') and k * (1 - 2 * df) >= pre) else (2 if (op.startswith('repne') and k * (1 - 2 * df) == pre) else 0)
        setup.append(X.ExprAff(X.ExprMem(X.ExprInt32(0x3000 + k), 8), X.ExprInt8(7)))
        setup.append(X.ExprAff(X.ExprMem(X.ExprInt32(0x2000 + k), 8), X.ExprInt8(7 + a if op.startswith('repe') else (2 if a == 2 else 9))))
        cm.mem[0x3000 + k] = 7
        cm.mem[0x2000 + k] = 7 + a if op.startswith('repe') else (2 if a == 2 else 9)
    try:
        with core.watchdog(20 if n < 100 else 600):
            for a in setup:
                m.eval_instr([a])
            ins = ia32.x86mnemo.dis(bytes.fromhex(hx))
            eh.emul_lines(m, [ins])
    except Exception as ex:
        return ('raises:%s' % type(ex).__name__, repr(ex)[:100])
    # architectural loop on the concrete machine with the single-step lifted semantics
    one = lift_neutral(ctx, bytes.fromhex(hx[2:]))
    while cm.regs['ecx'] != 0:
        cm.step(one)
        cm.regs['ecx'] = (cm.regs['ecx'] - 1) & 0xffffffff
        if op.startswith('repe') and cm.regs['zf'] == 0:
            break
        if op.startswith('repne') and cm.regs['zf'] == 1:
            break
    for r in ('ecx', 'esi', 'edi', 'eax', 'zf', 'cf'):
        reg = getattr(sem, r)
        try:
            v = sym_value(machine_get(m, reg), val, X)
        except Exception as ex:
            return ('reg-unevaluable', '%s = %s: %r' % (r, machine_get(m, reg), ex))
        if v & irsem.mask(reg.size) != cm.regs[r] & irsem.mask(reg.size):
            return ('reg:%s' % r, '%s = %s evaluates to %#x, %d architectural steps give %#x' % (r, str(machine_get(m, reg))[:80], v, n, cm.regs[r]))
    for k in range(-4, 5):
        e = m.eval_expr(X.ExprMem(X.ExprInt32(0x2000 + k), 8), {})
        v = sym_value(e, val, X)
        if v != cm.read(0x2000 + k, 8):
            return ('mem', 'byte at edi%+d = %s evaluates to %#x, architectural loop gives %#x' % (k, e, v, cm.read(0x2000 + k, 8)))
    return None


def machine_get(m, reg):
    return m.pool[reg]


def make_ctx():
    ia32 = core.import_x86()
    import miasmx.arch.ia32_sem as sem
    import miasmx.expression.expression as X
    import miasmx.expression.expression_eval_abstract as EA
    from miasmx.tools import emul_helper
    import logging
    lg = logging.getLogger('verif_quiet')
    lg.setLevel(100)
    lg.propagate = False
    return {'ia32': ia32, 'sem': sem, 'X': X, 'EA': EA, 'eh': emul_helper, 'log': lg}


def shard(s, ns, tier, seed):
    ctx = make_ctx()
    part = core.Part()
    with core.quiet_stdout():
        if tier == 'quick':
            bfs(ctx, part, QUICK_ALPHABET, 3, seed, s, ns)
            for al, dq, dt in LONG_JOBS:
                bfs(ctx, part, al, dq, seed, s, ns, split=min(3, dq), extra=True)
        else:
            bfs(ctx, part, list(range(NFULL)), 3, seed, s, ns)
            bfs(ctx, part, QUICK_ALPHABET, 4, seed, s, ns)
            for al, dq, dt in LONG_JOBS:
                bfs(ctx, part, al, dt, seed, s, ns, split=min(3, dt), extra=True)
        for i, (base, stores, load) in enumerate(storeload_space(tier)):
            if (i // 64) % ns != s:
                continue
            r = core.isolated(storeload_case, ctx, None, base, stores, load)      # each history in a pristine child
            part.n += 1
            part.transitions += len(stores) + 1
            part.traces += 1
            if r is None:
                part.keys.add(core.h64((base, stores, load)))
                if len(part.samples) < 4 and len(stores) > 1:
                    part.samples.append({'stores (offset, bits)': [list(x) for x in stores], 'load': list(load), 'base': base})
                part.outcomes.add(core.h64(geometry(stores, load)))
            else:
                # a failing 3-store history is attributed to a failing 2-store sub-history when one exists (the minimal
                # failing history names the defect; the rest of the 3-store space would only repeat it in other layouts)
                if len(stores) == 3:
                    for drop in (0, 1, 2):
                        sub = tuple(x for k_, x in enumerate(stores) if k_ != drop)
                        r2 = core.isolated(storeload_case, ctx, None, base, sub, load)
                        if r2 is not None:
                            stores, r = sub, r2
                            break
                part.violation('storeload base=%s %s fail=%s' % (base, geometry(stores, load), r[0]),
                               'stores %s then load %s (offset, bits; base %s): %s' % (list(stores), load, base, r[1]),
                               {'kind': 'storeload', 'base': base, 'stores': [list(x) for x in stores], 'load': list(load)}, size=len(stores) * 100 + sum(o for o, w in stores) + load[0])
        for i, (op, hx, n, df, pre) in enumerate(rep_cases(tier)):
            if (i * 7) % ns != s:
                continue
            try:
                r = rep_case(ctx, op, hx, n, df, pre)
            except (irsem.Unsupported, irsem.Undefined) as ex:
                part.skip('reference cannot execute')
                continue
            part.n += 1
            part.traces += 1
            part.transitions += n + 1
            if r is None:
                part.keys.add(core.h64(('rep', op, n, df, pre)))
            else:
                part.violation('rep op=%s count=%s fail=%s' % (op, '0' if n == 0 else ('n' if n < 100 else hex(n)), r[0]), 'ecx=%d df=%d %s (termination position %d): %s' % (n, df, op, pre, r[1]),
                               {'kind': 'rep', 'op': op, 'hex': hx, 'n': n, 'df': df, 'pre': pre}, size=n)
    return part


def run(tier, seed):
    t0 = time.time()
    core.import_x86()
    encoded()
    part = core.run_sharded(shard, (tier, seed), nshards=len(QUICK_ALPHABET) if tier == 'quick' else NFULL)
    rule = ('(1) BFS over instruction sequences: alphabet of %d instructions (quick alphabet: %d), depth %d, real emul_lines on a fresh x86_machine per history, '
            'canonical state = digest of dump_id()+dump_mem(), already-seen states are not expanded, failing states are not expanded; invariant per '
            'state: for 2 valuations of the initial symbols (bases 1 MiB apart) every general register, status flag and every read-back of 8/16/32 '
            'bits over the touched windows (esp-8..+11, esi-3..+11, edi-4..+7, 0xffd..0x1007) equals the concrete byte machine that runs the same lifted IR '
            'under irsem with parallel assignment. (2) all store/load histories: %s stores + 1 load over widths 8/16/32 x offsets 0..7 x constant and '
            'symbolic base through eval_instr/eval_expr. (3) rep stosb/movsb/stosd/repe cmpsb/repne scasb with ecx 0..3, df 0/1 and concrete memory '
            'making the termination test fire at each position, against the architectural loop. states/transitions/traces are counted on the real code; '
            'every explored trace is replayed on the implementation (that replay is the check)' % (
                NFULL, len(QUICK_ALPHABET), 3, '1..2 (+3 over 8 store shapes)' if tier == 'quick' else '1..3') + (' [thorough: depth 3 over the full alphabet and depth 4 over the quick alphabet]' if tier != 'quick' else '')
            + ' (1b) the same search over %d small interacting alphabets to greater depth (%s): accumulating arithmetic / exchanges to length %d, push/pop/xchg, '
              'sub-register writes, aligned store/load, byte and word register moves (slices of one source shared between registers), sub-register logic + shifts '
              'with sign-bit masks and counts at / beyond the operand width' % (len(LONG_JOBS), ', '.join('%d instr. x depth %d' % (len(al), dq if tier == 'quick' else dt) for al, dq, dt in LONG_JOBS),
                                                                               max(dq if tier == 'quick' else dt for al, dq, dt in LONG_JOBS)))
    return core.finish('C07', tier, seed, t0, part, rule, level='model_checking', exhaustive=True,
                       assumptions=['the concrete machine interprets the SAME lifted IR (C04 is about the lifter); irsem semantics',
                                    'different symbolic bases are at least 1 MiB apart (the machine\'s no-alias assumption is granted)'])


def replay(w):
    ctx = make_ctx()
    part = core.Part()
    with core.quiet_stdout():
        if w['kind'] == 'storeload':
            r = storeload_case(ctx, part, w['base'], [tuple(x) for x in w['stores']], tuple(w['load']))
        elif w['kind'] == 'rep':
            r = rep_case(ctx, w['op'], w['hex'], w['n'], w['df'], w['pre'])
        else:
            m = ctx['eh'].x86_machine()
            enc = encoded()
            try:
                ctx['eh'].emul_lines(m, [ctx['ia32'].x86mnemo.dis(enc[i]) for i in w['history']])
                r = check_state(ctx, m, w['history'], 0)
            except Exception as ex:
                r = ('raises', repr(ex))
    if r and r[0] != 'skip':
        return True, '%s: %s' % r
    return False, 'ok'
