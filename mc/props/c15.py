"""C15 - structural laws of IR nodes: equality is an equivalence implying equal hashes and equal
values; copy is equal and object-disjoint; visit(identity) is the identity; replace_expr denotes
substitution; canonize preserves the value.  Bounded exhaustive: every node of a pool covering all
seven node kinds (+ segmented memory, ExprAff) and all single-point mutants of the exemplars; ALL
ordered pairs of the pair pool; ALL replacement maps (|d| <= 2) over the sub-terms of each node."""
import time, itertools
import numpy as np
from .. import core, irsem, exprgen as g
from .c05 import lanes, children

NEEDS_X86 = False


def subterms(t, out=None):
    if out is None:
        out = []
    if t not in out:
        out.append(t)
    k = t[0]
    if k == 'aff':
        subterms(t[1], out)
        subterms(t[2], out)
    elif k == 'mem':
        subterms(t[1], out)
        if t[3] is not None:
            subterms(t[3], out)
    else:
        for c in children(t):
            subterms(c, out)
    return out


def pair_pool(w):
    a, b = g.ID('a', w), g.ID('b', w)
    P = list(g.leaves(w, 'full'))
    ex = g.exemplars(w)
    for e in ex:
        P.append(e)
        for m in g.mutants(e, 2):
            P.append(m)
        for m in g.eq_twins(e):
            P.append(m)
        for c in children(e):
            for m in g.eq_twins(c):
                P.append(m)
    # identifiers carrying the is_term / is_reg flags (x86 registers, init_* symbols), alone and inside trees
    for fl in ((False, True), (True, False), (True, True)):
        fa = ('id', 'a', w) + fl
        P.append(fa)
        P.append(('id', 'eax', 32) + fl)
        for e in ex[:6]:
            P.append(ref_subst(e, {a: fa}))
    P += g.E1(w, 'min')
    if w >= 8:
        ad = g.addr_of(w)
        for size in (8, 16, 32, 64):
            for seg in (None, g.ID('ds', 16), g.ID('fs', 16)):
                P.append(g.MEM(ad, size, seg))
                P.append(g.MEM(g.OP('+', ad, g.I(32, 4)), size, seg))
        for x in ex[:12] + [a, g.I(w, 1)]:
            P.append(('aff', a, x))
            P.append(('aff', b, x))
            P.append(('aff', g.MEM(ad, w), x))
            P.append(('aff', g.MEM(ad, w, g.ID('ds', 16)), x))
            if g._w(x) == 4 or w == 8:
                pass
        P.append(('aff', g.SL(a, 0, w // 2), g.SL(b, 0, w // 2)))
        P.append(('aff', g.SL(a, w // 2, w), g.SL(b, 0, w // 2)))
    # constants of other widths with equal values (ExprInt equality ignores the width)
    for ow in (1, 8, 16, 32, 64):
        P.append(g.I(ow, 1))
        P.append(g.I(ow, 0))
    P.append(g.ID('a', 16 if w != 16 else 8))
    seen, out = set(), []
    for t in P:
        if t not in seen:
            seen.add(t)
            out.append(t)
    return out


def unary_pool(w, tier):
    P = pair_pool(w) + g.E1(w, 'full')
    if tier == 'thorough':
        P += list(g.near_equal(w))
        P += list(itertools.islice(g.targeted(w), 0, None, 3))
    seen, out = set(), []
    for t in P:
        if t not in seen:
            seen.add(t)
            out.append(t)
    return out


def value_digest(t, w, seed):
    """digest of the value on all lanes (two memories); for an assignment: destination structure + source value"""
    if t[0] == 'aff':
        return ('aff', t[1], value_digest(t[2], w, seed))
    ids = dict(lanes(w, seed))
    for st in subterms(t):
        if st[0] == 'id' and st[1] not in ids:
            import zlib
            ids[st[1]] = ids['a'] * np.uint64(3) + np.uint64(zlib.crc32(st[1].encode()))
    try:
        irsem.width(t, True)
        v0 = irsem.ev_np(t, ids, 0)
        v1 = irsem.ev_np(t, ids, 1) if 'mem' in repr(t) else v0
    except (irsem.Unsupported, irsem.IllTyped, IndexError, KeyError):
        return None        # ill-typed twins (used only to probe == / hash / copy / visit) have no value
    return core.h64(v0.tobytes() + v1.tobytes())


def expr_nodes(e, acc):
    """ids of all Expr objects reachable from e"""
    X = irsem.X()
    if isinstance(e, X.Expr):
        if id(e) in acc:
            return
        acc[id(e)] = e
        for f in ('arg', 'cond', 'src1', 'src2', 'dst', 'src', 'segm'):
            v = getattr(e, f, None)
            if isinstance(v, X.Expr):
                expr_nodes(v, acc)
        args = getattr(e, 'args', None)
        if args is not None:
            for x in args:
                if isinstance(x, tuple):
                    expr_nodes(x[0], acc)
                else:
                    expr_nodes(x, acc)


def kind(t):
    return t[0] if t[0] != 'op' else 'op'


def ref_subst(t, d):
    """reference substitution on the neutral tree (keys are not nested in each other)"""
    if t in d:
        return d[t]
    k = t[0]
    if k in ('int', 'id'):
        return t
    if k == 'mem':
        return ('mem', ref_subst(t[1], d), t[2], ref_subst(t[3], d) if t[3] is not None else None)
    if k == 'op':
        return ('op', t[1], tuple(ref_subst(a, d) for a in t[2]))
    if k == 'slice':
        return ('slice', ref_subst(t[1], d), t[2], t[3])
    if k == 'compose':
        return ('compose', tuple((ref_subst(a, d), s, e) for a, s, e in t[1]))
    if k == 'cond':
        return ('cond', ref_subst(t[1], d), ref_subst(t[2], d), ref_subst(t[3], d))
    if k == 'aff':
        return ('aff', ref_subst(t[1], d), ref_subst(t[2], d))
    return t


def contains(t, s):
    return s in subterms(t)


def repl_terms(wd):
    out = [g.ID('r', wd), g.OP('+', g.ID('r', wd), g.ID('q', wd))]
    if wd in (1, 8, 16, 32, 64):
        out.append(g.I(wd, 5))
    if wd <= 32:
        # images that are themselves slices / cells / concatenations (a rebuilt parent must not re-interpret them)
        out.append(g.SL(g.ID('rr', 64), 8, 8 + wd))
        out.append(g.SL(g.ID('rr', 64), 0, wd))
        if wd in (8, 16, 32):
            out.append(g.MEM(g.ID('r', 32) if wd != 32 else g.ID('rr32', 32), wd))
        if wd >= 2:
            out.append(g.CO((g.SL(g.ID('r', wd), 0, wd // 2), 0, wd // 2), (g.SL(g.ID('q', wd), 0, wd - wd // 2), wd // 2, wd)))
    return out


def int_conflict(t):
    """True if the tree has two constants with equal value and different width (ExprInt equality conflates them)"""
    seen = {}
    for s in subterms(t):
        if s[0] == 'int':
            if seen.setdefault(s[2], s[1]) != s[1]:
                return True
    return False


def unary_laws(part, t, w, seed):
    X = irsem.X()
    k = kind(t)
    e = irsem.from_neutral(t)
    tn = irsem.to_neutral(e)          # ExprAff with a slice destination is rewritten at construction
    wit = {'tree': t, 'w': w}
    e2 = irsem.from_neutral(t)
    # reflexivity on fresh copies, hash coherence
    if not (e == e2) or (e != e2) or not (e == e):
        part.violation('law=reflexive kind=%s' % k, 'two fresh copies of %s compare unequal' % irsem.show(t), wit, irsem.size_nodes(t))
        return False
    if hash(e) != hash(e2):
        part.violation('law=hash kind=%s' % k, 'equal copies of %s hash differently' % irsem.show(t), wit, irsem.size_nodes(t))
        return False
    # copy: equal, structurally identical, object-disjoint
    c = e.copy()
    if not (c == e) or irsem.to_neutral(c) != tn:
        part.violation('law=copy-equal kind=%s' % k, 'copy of %s is %s' % (irsem.show(t), irsem.show(irsem.to_neutral(c))), wit, irsem.size_nodes(t))
        return False
    if k not in ('int', 'id'):
        n1, n2 = {}, {}
        expr_nodes(e, n1)
        expr_nodes(c, n2)
        shared = [n1[i] for i in n1 if i in n2 and not isinstance(n1[i], (X.ExprInt,))]
        if shared:
            part.violation('law=copy-disjoint kind=%s shared=%s' % (k, type(shared[0]).__name__),
                           'copy of %s shares node %s with the original' % (irsem.show(t), shared[0]), wit, irsem.size_nodes(t))
            return False
    # the flags a copy carries
    if k == 'id' and (c.is_term != e.is_term or c.is_reg != e.is_reg):
        part.violation('law=copy-equal kind=id-flags', 'copy of an identifier changes is_term/is_reg', wit)
        return False
    # visit(identity)
    v = e.visit(lambda x: x)
    if not (v == e) or irsem.to_neutral(v) != tn:
        part.violation('law=visit-identity kind=%s' % k, 'visit(identity) of %s gives %s' % (irsem.show(t), irsem.show(irsem.to_neutral(v))), wit, irsem.size_nodes(t))
        return False
    # canonize preserves the value
    if k != 'aff':
        d0 = value_digest(tn, w, seed)
        try:
            cz = e.canonize()
            tc = irsem.to_neutral(cz)
        except Exception as ex:
            part.violation('law=canonize kind=%s exception=%s' % (k, type(ex).__name__), 'canonize(%s) raises %r' % (irsem.show(t), ex), wit, irsem.size_nodes(t))
            return False
        d1 = value_digest(tc, w, seed) if d0 is not None else None
        if d0 is not None and d0 != d1:
            # name the reordered operator
            ops = sorted(set(s[1] for s in subterms(tn) if s[0] == 'op' and s[1] not in g.ASSOC and len(s[2]) > 1))
            part.violation('law=canonize kind=%s noncommutative=%s' % (k, ','.join(ops) or '-'),
                           'canonize(%s) = %s has a different value' % (irsem.show(t), irsem.show(tc)), wit, irsem.size_nodes(t))
            return False
    return True


def replace_laws(part, t, w, seed):
    """all maps d (|d| <= 2, keys = non-nested sub-terms) x replacement terms"""
    if t[0] == 'aff' or int_conflict(t):
        return 0
    S = [s for s in subterms(t) if s[0] != 'int' or True]
    S = S[:7]
    n = 0
    maps = []
    for s in S:
        ws = g._w(s)
        for r in repl_terms(ws):
            maps.append({s: r})
    for s1, s2 in itertools.combinations(S, 2):
        if contains(s1, s2) or contains(s2, s1):
            continue
        if g._w(s1) == g._w(s2):          # replace one sub-term by a sibling that occurs elsewhere in the tree
            maps.append({s1: s2})
            maps.append({s2: s1})
        r1, r2 = repl_terms(g._w(s1)), repl_terms(g._w(s2))
        maps.append({s1: r1[0], s2: r2[1]})
        maps.append({s1: r1[1], s2: r2[0]})
        maps.append({s1: s2, s2: s1} if g._w(s1) == g._w(s2) else {s1: r1[0], s2: r2[0]})
    base = irsem.to_neutral(irsem.from_neutral(t))
    for d in maps:
        # replacement terms must not themselves contain a key (then bottom-up and top-down substitution differ)
        if any(contains(v, k2) for v in d.values() for k2 in d):
            if not all(d.get(v) == k2 or True for k2, v in d.items()):
                continue
        e = irsem.from_neutral(t)
        dd = {irsem.from_neutral(k2): irsem.from_neutral(v) for k2, v in d.items()}
        n += 1
        try:
            r = e.replace_expr(dd)
            tr = irsem.to_neutral(r)
        except Exception as ex:
            part.violation('law=replace kind=%s exception=%s' % (kind(t), type(ex).__name__),
                           'replace_expr on %s with %s raises %r' % (irsem.show(t), {irsem.show(a): irsem.show(b) for a, b in d.items()}, ex),
                           {'tree': t, 'map': [[a, b] for a, b in d.items()], 'w': w}, irsem.size_nodes(t))
            continue
        swap = any(v in d for v in d.values())
        expect = ref_subst(t, d)
        if tr != expect:
            if swap:
                continue      # a swap map applied bottom-up may legitimately re-replace; not constrained
            ids = dict(lanes(w, seed))
            ids['r'] = ids['a'] ^ np.uint64(0x5a)
            ids['q'] = ids['b'] + np.uint64(3)
            ids['rr'] = (ids['a'] * np.uint64(0x0101010101010101)) ^ np.uint64(0x0123456789abcdef)
            ids['rr32'] = ids['b'] ^ np.uint64(0x1234)
            try:
                same = (irsem.ev_np(tr, ids, 0) == irsem.ev_np(expect, ids, 0)).all()
            except Exception:
                same = False
            if not same:
                keyk = sorted(kind(k2) for k2 in d)
                part.violation('law=replace kind=%s keys=%s' % (kind(t), '+'.join(keyk)),
                               'replace_expr(%s, %s) = %s, substitution gives %s' % (
                                   irsem.show(t), {irsem.show(a): irsem.show(b) for a, b in d.items()}, irsem.show(tr), irsem.show(expect)),
                               {'tree': t, 'map': [[a, b] for a, b in d.items()], 'w': w}, irsem.size_nodes(t))
        if irsem.to_neutral(e) != base:
            part.violation('law=replace-input-mutated kind=%s' % kind(t), 'replace_expr modified its receiver %s' % irsem.show(t),
                           {'tree': t, 'map': [[a, b] for a, b in d.items()], 'w': w}, irsem.size_nodes(t))
    return n


def chained_replace_laws(part, w=32):
    """replacement maps in which a key is matched only by a node REBUILT after an inner replacement (a0 -> x0 makes
    (a0+c) into (x0+c), which is a key itself).  Every chained key maps to a commuted, equal-valued term, so the value of
    the result is determined by the inner (leaf) replacements alone whatever the order of application; several such keys
    and several further rebuilt operands in one call (rebuilt nodes die and their storage is reused during the visit)."""
    ID = lambda n: ('id', n, w)
    c = ID('c')
    n = 0
    vals = []
    for k in range(4):
        ids = {}
        for j, nm in enumerate(['c'] + ['%s%d' % (p, i) for p in 'axbz' for i in range(4)]):
            ids[nm] = (0x9e3779b1 * (j + 1) * (k + 3) + k) & irsem.mask(w)
        vals.append(ids)
    for outer in ('*', '+', '^'):
        for nch in range(1, 5):
            for npl in range(0, 4):
                for with_orig in (False, True):
                    ops, d, exp = [], {}, []
                    for i in range(nch):
                        ops.append(('op', '+', (ID('a%d' % i), c)))
                        d[ID('a%d' % i)] = ID('x%d' % i)
                        d[('op', '+', (ID('x%d' % i), c))] = ('op', '+', (c, ID('x%d' % i)))
                        exp.append(('op', '+', (c, ID('x%d' % i))))
                    if with_orig:
                        for i in range(nch):
                            ops.append(('op', '+', (ID('x%d' % i), c)))
                            exp.append(('op', '+', (c, ID('x%d' % i))))
                    for i in range(npl):
                        ops.append(('op', '+', (ID('b%d' % i), c)))
                        d[ID('b%d' % i)] = ID('z%d' % i)
                        exp.append(('op', '+', (ID('z%d' % i), c)))
                    if len(ops) < 2:
                        continue
                    t = ('op', outer, tuple(ops))
                    expect = ('op', outer, tuple(exp))
                    for rep in range(2):
                        e = irsem.from_neutral(t)
                        dd = {irsem.from_neutral(k2): irsem.from_neutral(v) for k2, v in d.items()}
                        n += 1
                        try:
                            tr = irsem.to_neutral(e.replace_expr(dd))
                            bad = None
                            for ids in vals:
                                got, want = irsem.ev_int(tr, irsem.Env(ids, {}, 0)), irsem.ev_int(expect, irsem.Env(ids, {}, 0))
                                if got != want:
                                    bad = 'replace_expr(%s, %s) = %s: value %#x, substitution gives %#x' % (
                                        irsem.show(t), {irsem.show(a): irsem.show(b) for a, b in d.items()}, irsem.show(tr), got, want)
                                    break
                        except Exception as ex:
                            bad = 'replace_expr on %s raises / returns an unevaluable term: %r' % (irsem.show(t), ex)
                        if bad:
                            part.violation('law=replace kind=op keys=chained', bad, {'chained': [outer, nch, npl, with_orig], 'w': w}, nch + npl)
    return n


def raw_constant_laws(part):
    """constants of EVERY fixed-width integer class (signed and unsigned, 1..128 bits; the neutral form only covers the
    unsigned 1/8/16/32/64-bit ones), alone and inside each node kind: copy / visit(identity) / replace_expr(empty map)
    return an equal expression whose constant has the same class and value, and equal hashes"""
    X = irsem.X()
    from miasmx.tools import modint as M
    classes = [c for c in (getattr(M, n, None) for n in ('uint1', 'uint8', 'uint16', 'uint32', 'uint64', 'uint128',
                                                          'int8', 'int16', 'int32', 'int64', 'int128')) if c is not None]
    for cls in classes:
        size = cls.size
        vals = sorted(set([0, 1, 3, (1 << (size - 1)) - 1, 1 << (size - 1), (1 << size) - 1, -1, -8]))
        for v in vals:
            def mk():
                return X.ExprInt(cls(v))
            idw = X.ExprId('a', size)
            builders = [('int', mk),
                        ('op', lambda: X.ExprOp('+', X.ExprId('a', size), mk())),
                        ('cond', lambda: X.ExprCond(X.ExprId('c', 1), mk(), X.ExprId('a', size))),
                        ('compose', lambda: X.ExprCompose([(mk(), 0, size), (X.ExprId('a', size), size, 2 * size)])),
                        ('aff', lambda: X.ExprAff(X.ExprId('a', size), mk()))]
            if size >= 8:
                builders.append(('slice', lambda: X.ExprSlice(mk(), 0, size // 2)))
            if size == 32:
                builders.append(('mem', lambda: X.ExprMem(mk(), 8)))
            for kname, b in builders:
                wit = {'raw': [cls.__name__, v, kname]}
                part.n += 1
                try:
                    e = b()
                    ref = str(e), [(type(x.arg).__name__, int(x.arg)) for x in raw_ints(e, X)]
                    outs = [('copy', e.copy()), ('visit-identity', e.visit(lambda x: x))]
                    if kname != 'aff':
                        outs.append(('replace-empty', e.replace_expr({})))
                    bad = None
                    for law, r in outs:
                        got = str(r), [(type(x.arg).__name__, int(x.arg)) for x in raw_ints(r, X)]
                        if not (r == e) or got != ref or hash(r) != hash(e):
                            bad = (law, 'ExprInt(%s(%d)) inside %s: %s gives %s %s, original %s %s' % (cls.__name__, v, kname, law, got[0], got[1], ref[0], ref[1]))
                            break
                except Exception as ex:
                    bad = ('exception:%s' % type(ex).__name__, 'ExprInt(%s(%d)) inside %s: %r' % (cls.__name__, v, kname, ex))
                if bad:
                    part.violation('law=raw-constant:%s class=%s%s' % (bad[0], 'signed' if cls.__name__.startswith('int') else 'unsigned', size),
                                   bad[1], wit)
                else:
                    part.keys.add(core.h64(('raw', cls.__name__, v, kname)))


def raw_ints(e, X):
    out = []

    def rec(x):
        if isinstance(x, X.ExprInt):
            out.append(x)
        for a in ('arg', 'cond', 'src1', 'src2', 'src', 'dst', 'segm'):
            c = getattr(x, a, None)
            if isinstance(c, X.Expr):
                rec(c)
        if isinstance(x, X.ExprOp):
            for c in x.args:
                rec(c)
        if isinstance(x, X.ExprCompose):
            for c in x.args:
                rec(c[0])
    rec(e)
    return out


def widths(tier):
    return (8, 32) if tier == 'quick' else (8, 32, 16, 64, 1)


def shard_unary(s, ns, tier, seed):
    irsem.SEGAWARE = True
    part = core.Part()
    if s == 0:
        raw_constant_laws(part)
    if s == 1 % ns:
        nchain = chained_replace_laws(part)
        part.counters['replace_maps'] += nchain
        part.n += nchain
    for w in widths(tier):
        U = unary_pool(w, tier)
        PP = set(pair_pool(w))
        for i, t in enumerate(U):
            if i % ns != s:
                continue
            ok = unary_laws(part, t, w, seed)
            n = 0
            if t in PP or tier == 'thorough':
                n = replace_laws(part, t, w, seed)
            part.counters['replace_maps'] += n
            part.n += n
            if ok:
                part.ok(core.h64(('u', w, repr(t))), sample=irsem.show(t) if i % 997 == seed % 997 else None)
            else:
                part.n += 1
    return part


def shard_pairs(s, ns, tier, seed):
    """rows i = s mod ns of the equality matrix over the pair pool; returns the true pairs"""
    irsem.SEGAWARE = True
    part = core.Part()
    part.true_pairs = []
    for w in widths(tier):
        P = pair_pool(w)
        objs = [irsem.from_neutral(t) for t in P]
        objs2 = [irsem.from_neutral(t) for t in P]
        hs = [hash(o) for o in objs]
        N = len(P)
        for i in range(s, N, ns):
            a = objs[i]
            for j in range(N):
                b = objs2[j]
                eq = (a == b)
                ne = (a != b)
                if eq == ne:
                    part.violation('law=ne-consistent kind=%s' % kind(P[i]), '== and != agree on %s , %s' % (irsem.show(P[i]), irsem.show(P[j])),
                                   {'pair': [P[i], P[j]], 'w': w})
                if eq:
                    part.true_pairs.append((w, i, j))
                    if hs[i] != hash(b):
                        part.violation('law=eq-implies-hash kinds=%s,%s' % (kind(P[i]), kind(P[j])),
                                       '%s == %s but hashes differ' % (irsem.show(P[i]), irsem.show(P[j])), {'pair': [P[i], P[j]], 'w': w},
                                       irsem.size_nodes(P[i]) + irsem.size_nodes(P[j]))
            part.n += N
            part.keys.add(core.h64(('row', w, i)))
    return part


class PairPart(core.Part):
    pass


def run(tier, seed):
    t0 = time.time()
    irsem.SEGAWARE = True
    irsem.selfcheck()
    part = core.run_sharded(shard_unary, (tier, seed), nshards=core.NPROC * 4)
    # pairs: gather the sparse set of equal pairs, then symmetry / transitivity / equal values in the parent
    import multiprocessing
    ctx = multiprocessing.get_context('fork')
    ns = core.NPROC * 4
    true_pairs = []
    with ctx.Pool(core.NPROC) as pool:
        for r in pool.imap_unordered(core._shard_entry, [(shard_pairs, s, ns, (tier, seed)) for s in range(ns)]):
            if isinstance(r, tuple):
                core.harness_error(r[1])
            true_pairs += r.true_pairs
            part.merge(r)
    npairs = 0
    for w in widths(tier):
        P = pair_pool(w)
        N = len(P)
        npairs += N * N
        T = set((i, j) for (ww, i, j) in true_pairs if ww == w)
        dig = {}

        def vd(i):
            if i not in dig:
                tn = irsem.to_neutral(irsem.from_neutral(P[i]))
                dig[i] = value_digest(tn, w, seed)
            return dig[i]
        adj = {}
        for (i, j) in T:
            adj.setdefault(i, set()).add(j)
            if (j, i) not in T:
                part.violation('law=symmetric kinds=%s,%s' % (kind(P[i]), kind(P[j])),
                               '%s == %s but not conversely' % (irsem.show(P[i]), irsem.show(P[j])), {'pair': [P[i], P[j]], 'w': w})
            if i != j:
                if P[i][0] == 'int' and P[j][0] == 'int':
                    same = P[i][2] == P[j][2]          # constants: equal numbers (widths may differ)
                else:
                    same = vd(i) == vd(j) and g._w(P[i]) == g._w(P[j])
                if not same:
                    part.violation('law=eq-implies-value kinds=%s,%s' % (kind(P[i]), kind(P[j])),
                                   '%s == %s although they are different values' % (irsem.show(P[i]), irsem.show(P[j])),
                                   {'pair': [P[i], P[j]], 'w': w}, irsem.size_nodes(P[i]) + irsem.size_nodes(P[j]))
        for i in range(N):
            if (i, i) not in T:
                part.violation('law=reflexive kind=%s' % kind(P[i]), '%s != itself' % irsem.show(P[i]), {'tree': P[i], 'w': w})
        for i, js in adj.items():          # transitivity: neighbours of i must be pairwise equal
            for j in js:
                for k2 in adj.get(j, ()):
                    if k2 not in js:
                        part.violation('law=transitive kinds=%s' % kind(P[i]),
                                       '%s == %s == %s but first != third' % (irsem.show(P[i]), irsem.show(P[j]), irsem.show(P[k2])),
                                       {'triple': [P[i], P[j], P[k2]], 'w': w})
        part.counters['equal_pairs_w%d' % w] = len(T)
        part.counters['pair_pool_w%d' % w] = N
    part.counters['ordered_pairs'] = npairs
    part.samples.append({'pair pool sizes (every ordered pair is compared)': {str(w): len(pair_pool(w)) for w in widths(tier)},
                         'first equal pair': [irsem.show(pair_pool(true_pairs[0][0])[true_pairs[0][1]]), irsem.show(pair_pool(true_pairs[0][0])[true_pairs[0][2]])] if true_pairs else None})
    rule = ('unary laws (reflexive on fresh copies, hash, copy equal+object-disjoint, visit(identity), canonize value) on every node of '
            'U(w) = pair pool + E1(w) [+ near-equal and targeted families in thorough]; replace_expr on every map with |d|<=2 over the '
            'first 7 sub-terms x 3 replacement terms; equality matrix over ALL ordered pairs of the pair pool P(w) = leaves + exemplars '
            'of every node kind + all single-point mutants (depth 2) + E1(min) + segmented memory + assignments: symmetric, transitive, '
            '== xor !=, equal => equal hash and equal value (irsem, all 2^16 valuations at w=8, segment-aware memory). '
            'evaluations counts node checks + replacement maps + pair comparisons; distinct_nontrivial counts distinct nodes and matrix rows')
    return core.finish('C15', tier, seed, t0, part, rule, exhaustive=True, space={'widths': list(widths(tier))},
                       assumptions=['irsem is the value semantics; a segment override selects a different address space (strict reading, only '
                                    'matters if == ignores the segment)', 'replacement maps with nested keys are excluded (substitution order would matter)'])


def replay(wt):
    irsem.SEGAWARE = True

    def tup(x):
        return tuple(tup(i) for i in x) if isinstance(x, list) else x
    part = core.Part()
    w = wt.get('w', 8)
    if 'pair' in wt or 'triple' in wt:
        ts = [tup(x) for x in wt.get('pair') or wt.get('triple')]
        os_ = [irsem.from_neutral(t) for t in ts]
        msg = ['%s == %s : %s (hash equal: %s)' % (irsem.show(ts[i]), irsem.show(ts[j]), os_[i] == os_[j], hash(os_[i]) == hash(os_[j]))
               for i in range(len(ts)) for j in range(len(ts)) if i != j]
        bad = False
        for i in range(len(ts)):
            for j in range(len(ts)):
                if i != j and os_[i] == os_[j]:
                    vi = value_digest(irsem.to_neutral(os_[i]), w, 0)
                    vj = value_digest(irsem.to_neutral(os_[j]), w, 0)
                    if hash(os_[i]) != hash(os_[j]) or vi != vj or not (os_[j] == os_[i]):
                        bad = True
        return bad, '\n'.join(msg)
    if 'chained' in wt:
        chained_replace_laws(part, w)
        if part.viols:
            return True, '\n'.join('%s: %s' % (k, v[1]) for k, v in part.viols.items())
        return False, 'ok'
    t = tup(wt['tree'])
    unary_laws(part, t, w, 0)
    replace_laws(part, t, w, 0)
    if part.viols:
        return True, '\n'.join('%s: %s' % (k, v[1]) for k, v in part.viols.items())
    return False, 'ok'
