"""C18 - PowerPC words decode unambiguously and re-encode to themselves.
(a) unambiguity over ALL 2^32 words: every class pair is decided by enumerating every assignment of the bits
    either class constrains (per-field acceptance sets are obtained by calling the real mask check()s; the
    conjunction structure is validated against the real class check()); witnesses re-checked on the real code.
(b) structured word space (64 primary x 1024 extended opcodes x Rc/OE/AA/LK x operand-field patterns x D-form
    immediates x all BO): at most one class; bin() round trip; str(); asm(str) round trip.
(c) class/mnemonic agree with the Power ISA as decoded by llvm-mc (reviewed relation table)."""
import time, sys, struct, subprocess, itertools, json, os, re
import numpy as np
from .. import core

NEEDS_X86 = False
REL_FILE = os.path.join(core.VERIF, 'mc', 'ppc_llvm_pairs.json')


def PPC():
    import miasmx.arch.ppc_arch as P
    return P


# ---------------------------------------------------------------------------
def fields_of(cls):
    """[(off, l, allowed values as a numpy bool array of size 2^l)] from the real mask objects"""
    out = []
    for m in cls.mask_chk:
        if m.fbits is None:
            continue
        off, l = m.off, m.l
        allowed = np.zeros(1 << l, dtype=bool)
        for v in range(1 << l):
            r0 = bool(m.check(v << off))
            r1 = bool(m.check((v << off) | (0xffffffff & ~(((1 << l) - 1) << off))))
            if r0 != r1:
                raise AssertionError('mask %r of %s reads bits outside its field' % (m, cls.__name__))
            allowed[v] = r0
        out.append((off, l, allowed))
    return out


def accepts_np(F, words):
    ok = np.ones(len(words), dtype=bool)
    for off, l, allowed in F:
        ok &= allowed[(words >> np.uint64(off)).astype(np.int64) & ((1 << l) - 1)]
    return ok


def pair_overlap(FA, FB):
    """a word accepted by both classes, or None.  Fields that overlap (share bits) are grouped into connected
    components; each component is decided by enumerating ALL assignments of its bits; the classes overlap iff
    every component is satisfiable (components constrain disjoint bits)."""
    F = [(off, l, a, 0) for off, l, a in FA] + [(off, l, a, 1) for off, l, a in FB]
    comp = list(range(len(F)))

    def find(x):
        while comp[x] != x:
            x = comp[x]
        return x
    for i in range(len(F)):
        for j in range(i + 1, len(F)):
            if F[i][0] < F[j][0] + F[j][1] and F[j][0] < F[i][0] + F[i][1]:
                comp[find(i)] = find(j)
    groups = {}
    for i in range(len(F)):
        groups.setdefault(find(i), []).append(F[i])
    word, total = 0, 0
    for g in groups.values():
        bits = sorted(set(b for off, l, _, _ in g for b in range(off, off + l)))
        n = len(bits)
        if n > 24:
            raise AssertionError('component with %d bits' % n)
        idx = np.arange(1 << n, dtype=np.uint64)
        words = np.zeros(1 << n, dtype=np.uint64)
        for i, b in enumerate(bits):
            words |= ((idx >> np.uint64(i)) & np.uint64(1)) << np.uint64(b)
        ok = accepts_np([(off, l, a) for off, l, a, _ in g], words)
        total += 1 << n
        if not ok.any():
            return None, total
        word |= int(words[np.nonzero(ok)[0][0]])
    return word, total


def shard_pairs(s, ns, tier, seed):
    P = PPC()
    part = core.Part()
    tab = list(P.tab_mn)
    F = [fields_of(c) for c in tab]
    k = 0
    for i in range(len(tab)):
        for j in range(i + 1, len(tab)):
            k += 1
            if k % ns != s:
                continue
            w, n = pair_overlap(F[i], F[j])
            part.counters['assignments_enumerated'] += n
            part.n += 1
            if w is None:
                part.keys.add(core.h64(('pair', i, j)))
                if len(part.samples) < 1 and n > 1:
                    part.samples.append({'class pair': [tab[i].__name__, tab[j].__name__], 'assignments of constrained bits enumerated': n, 'overlap': None})
                continue
            # confirm on the real code, with the unconstrained bits at 0 and at 1
            fills = [w]
            free = 0xffffffff
            for off, l, _ in F[i] + F[j]:
                free &= ~(((1 << l) - 1) << off)
            fills.append(w | free)
            real = [(tab[i].check(x), tab[j].check(x)) for x in fills]
            if all(a and b for a, b in real):
                part.violation('ambiguous classes=%s+%s' % (tab[i].__name__, tab[j].__name__),
                               'word %#010x is claimed by both %s and %s' % (w, tab[i].__name__, tab[j].__name__), {'word': w, 'kind': 'pair'})
            else:
                core.harness_error('field model disagrees with the real check() on %#x for %s/%s' % (w, tab[i].__name__, tab[j].__name__))
    return part


# ---------------------------------------------------------------------------
def word_space(tier):
    """deterministic generator of the structured word space"""
    if tier == 'quick':
        pats = [(0, 0, 0), (3, 4, 5), (31, 31, 31), (1, 0, 31)]
    else:
        pats = list(itertools.product((0, 1, 31), repeat=3)) + [(3, 4, 5), (12, 13, 14)]
    for prim in range(64):
        for low in range(1 << 11):          # extended opcode (10 bits) + Rc/LK
            for (rt, ra, rb) in pats:
                yield (prim << 26) | (rt << 21) | (ra << 16) | (rb << 11) | low
    imms = (0, 1, 0x7fff, 0x8000, 0xffff, 0xfffc, 0x0004)
    for prim in range(64):
        for (rt, ra, rb) in pats:
            for imm in imms:
                yield (prim << 26) | (rt << 21) | (ra << 16) | imm
    for prim in (16, 19):                   # all BO x BI classes x AA/LK
        for bo in range(32):
            for bi in (0, 1, 2, 3, 4, 31):
                for low in (0x0010, 0x0011, 0x0012, 0x0013, 0x0020, 0x0021, 0x0420, 0x0421, 0xfff0, 0x8000):
                    yield (prim << 26) | (bo << 21) | (bi << 16) | low
    for spr in (1, 8, 9, 18, 19, 22, 26, 27, 268, 269, 272, 287, 1008, 1023):       # mfspr/mtspr/mftb special registers
        sp = ((spr & 0x1f) << 5) | (spr >> 5)
        for xo in (339, 467, 371):
            for rt in (0, 3, 31):
                yield (31 << 26) | (rt << 21) | (sp << 11) | (xo << 1)


def word_space_extra():
    """fields wider than a register number: every special-purpose-register number, every leading-bit pattern of the
    24-bit and 14-bit branch displacements"""
    for spr in range(1024):
        sp = ((spr & 0x1f) << 5) | (spr >> 5)
        for xo in (339, 467, 371):
            yield (31 << 26) | (3 << 21) | (sp << 11) | (xo << 1)
    for top in range(32):
        for low in (0, 1, 0x7ffff, 0x40000):
            for aalk in range(4):
                yield (18 << 26) | ((((top << 19) | low) & 0xffffff) << 2) | aalk
    for bo in (20, 12, 4, 16):
        for bd in (0x0004, 0x1000, 0x2000, 0x3ffc, 0x4000, 0x7ffc, 0x8000, 0xa000, 0xc000, 0xfffc):
            for aalk in range(4):
                yield (16 << 26) | (bo << 21) | (2 << 16) | (bd & 0xfffc) | aalk


def llvm_names(words):
    """MCInst opcode name per word (None if llvm-mc rejects it)"""
    inp = '\n'.join(' '.join('0x%02x' % b for b in struct.pack('>L', w)) for w in words) + '\n'
    r = subprocess.run(['llvm-mc', '--disassemble', '-triple=powerpc', '-show-inst'], input=inp.encode(),
                       stdout=subprocess.PIPE, stderr=subprocess.PIPE)
    out = r.stdout.decode('latin1')
    err = r.stderr.decode('latin1')
    bad = set(int(m.group(1)) - 1 for m in re.finditer(r'<stdin>:(\d+):\d+: warning: invalid instruction encoding', err))
    names = re.findall(r'<MCInst #\d+ (\w+)', out)
    res, it = [], iter(names)
    for i in range(len(words)):
        if i in bad:
            res.append(None)
        else:
            res.append(next(it, None))
    return res


def load_relation():
    if os.path.exists(REL_FILE):
        return {tuple(x) for x in json.load(open(REL_FILE))['pairs']}
    return None


def word_case(part, P, w, lname, rel, learn):
    wit = {'word': w, 'kind': 'word'}
    claims = [c for c in P.tab_mn if c.check(w)]
    if len(claims) > 1:
        part.violation('ambiguous classes=%s' % '+'.join(sorted(c.__name__ for c in claims)), 'word %#010x claimed by %s' % (w, [c.__name__ for c in claims]), wit)
        return
    if not claims:
        # the decode API must agree: no class -> no instruction (also after any history of other decodes)
        try:
            m = P.ppc_mn(w)
        except Exception:
            part.ok(w, outcome='unclaimed')
            return
        part.violation('step=decode kind=unclaimed-word-decoded class=%s' % type(m).__name__,
                       'no class check() accepts %#010x but ppc_mn(word) returns a %s after earlier decodes' % (w, type(m).__name__), wit)
        return
    cname = claims[0].__name__
    try:
        m = P.ppc_mn(w)
    except Exception as ex:
        part.violation('class=%s step=decode exc=%s' % (cname, type(ex).__name__), 'ppc_mn(%#010x) raises %r' % (w, ex), wit)
        return
    if type(m).__name__ != cname:
        part.violation('class=%s step=decode kind=class-mismatch' % cname, 'ppc_mn(%#010x) is a %s' % (w, type(m).__name__), wit)
        return
    try:
        b = m.bin()
    except Exception as ex:
        part.violation('class=%s step=bin exc=%s' % (cname, type(ex).__name__), 'ppc_mn(%#010x).bin() raises %r' % (w, ex), wit)
        return
    if b != w:
        part.violation('class=%s step=bin field=%s' % (cname, diff_fields(w, b)), 'ppc_mn(%#010x).bin() = %#010x' % (w, b), wit, size=bin(w).count('1'))
        return
    try:
        txt = str(m)
    except Exception as ex:
        part.violation('class=%s step=str exc=%s' % (cname, type(ex).__name__), 'str(ppc_mn(%#010x)) raises %r' % (w, ex), wit, size=bin(w).count('1'))
        return
    base = txt.split(' ')[0]
    # conditional branches: the condition named in the text must be the one BO/BI encode
    prim = w >> 26
    if prim == 16 or (prim == 19 and ((w >> 1) & 0x3ff) in (16, 528)):
        bo, bi = (w >> 21) & 31, (w >> 16) & 31
        toks = set(re.split(r'[\s,]+', txt))
        named = toks & {'LT', 'GT', 'EQ', 'SO', 'GE', 'LE', 'NE', 'NS'}
        if named and not (bo & 0x10):
            exp = [['GE', 'LE', 'NE', 'NS'], ['LT', 'GT', 'EQ', 'SO']][(bo >> 3) & 1][bi & 3]
            if named != {exp}:
                part.violation('class=%s step=render field=condition' % cname,
                               '%#010x (BO=%d BI=%d) renders %r; BO/BI encode condition %s' % (w, bo, bi, txt.strip(), exp), wit, size=bin(w).count('1'))
                return
    try:
        a = P.ppc_mn.asm(txt)
        ok = isinstance(a, list) and len(a) >= 1 and a[0] == struct.pack('>L', w)
    except Exception as ex:
        part.violation('class=%s step=asm exc=%s' % (cname, type(ex).__name__), 'asm(%r) [text of %#010x] raises %r' % (txt, w, ex), wit, size=bin(w).count('1'))
        return
    if not ok:
        got = struct.unpack('>L', a[0])[0] if a and len(a[0]) == 4 else None
        fld = diff_fields(w, got) if got is not None else 'shape'
        if got is not None and cname in ('ppc_bc', 'ppc_bctr') and ((w ^ got) >> 16) & 31:
            # BI = CR field (3 bits) . condition bit (2 bits): which part the text loses is a different defect
            d = ((w ^ got) >> 16) & 31
            fld = '+'.join(('ra[%s]' % ','.join(n for n, m_ in (('crf', 0x1c), ('cond', 3)) if d & m_)) if f == 'ra' else f for f in fld.split('+'))
        part.violation('class=%s step=asm field=%s' % (cname, fld),
                       'asm(%r) = %s, decoded word %#010x' % (txt, [x.hex() for x in a] if isinstance(a, list) else a, w), wit, size=bin(w).count('1'))
        return
    if lname is not None:
        if learn is not None:
            learn.add((cname, base, lname))
        elif rel is not None and (cname, base, lname) not in rel:
            part.violation('class=%s step=architecture mnemonic=%s reference=%s' % (cname, base, lname),
                           'word %#010x: miasmX class %s renders %r, llvm-mc decodes %s (pair not in the reviewed table)' % (w, cname, txt.strip(), lname), wit, size=bin(w).count('1'))
            return
    else:
        part.counters['reference_rejects'] += 1
    part.ok(w, outcome=(cname, base), sample={'word': '%#010x' % w, 'class': cname, 'text': txt.strip(), 'llvm': lname} if len(part.samples) < 3 else None)


def diff_fields(a, b):
    x = a ^ b
    names = []
    for lo, hi, n in ((26, 32, 'primary'), (21, 26, 'rt'), (16, 21, 'ra'), (11, 16, 'rb'), (1, 11, 'xo'), (0, 1, 'rc')):
        if x & (((1 << (hi - lo)) - 1) << lo):
            names.append(n)
    return '+'.join(names)


def shard_words(s, ns, tier, seed, learn=False):
    P = PPC()
    part = core.Part()
    rel = load_relation()
    learned = set() if learn else None
    chunk = []
    with core.quiet_stdout():
        for i, w in enumerate(itertools.chain(word_space(tier), word_space_extra())):
            if (i // 256) % ns != s:
                continue
            chunk.append(w)
            if len(chunk) == 8192:
                for ww, ln in zip(chunk, llvm_names(chunk)):
                    n0 = len(part.viols)
                    word_case(part, P, ww, ln, rel, learned)
                    if len(part.viols) != n0:
                        part.n += 1
                chunk = []
        for ww, ln in zip(chunk, llvm_names(chunk)) if chunk else ():
            n0 = len(part.viols)
            word_case(part, P, ww, ln, rel, learned)
            if len(part.viols) != n0:
                part.n += 1
    if s == 0:
        asm_order_case(part, P)
    part.learned = learned
    return part


def asm_order_case(part, P):
    """the assembler is a function of the text: the texts of one word per (class, register file) incl. every special and
    segment register, assembled in one process forwards, and in another process backwards, give the same words"""
    words = []
    for sr in range(16):
        for xo in (210, 595):                       # mtsr / mfsr
            words.append((31 << 26) | (3 << 21) | (sr << 16) | (xo << 1))
    for spr in range(1024):
        sp = ((spr & 0x1f) << 5) | (spr >> 5)
        for xo in (339, 467):
            words.append((31 << 26) | (5 << 21) | (sp << 11) | (xo << 1))
    for r in range(32):
        words.append((31 << 26) | (r << 21) | (r << 16) | (r << 11) | (266 << 1))      # add
        words.append((63 << 26) | (r << 21) | (r << 16) | (r << 11) | (21 << 1))       # fadd
        words.append((19 << 26) | (r << 21) | (r << 16) | (r << 11) | (257 << 1))      # crand
        words.append((11 << 26) | ((r & 28) << 21) | (r << 16) | 5)                    # cmpi crf
    texts = []
    with core.quiet_stdout():
        for w in words:
            try:
                t = str(P.ppc_mn(w))
            except Exception:
                continue
            if t not in texts:
                texts.append(t)

    def run_in_order(order):
        out = {}
        with core.quiet_stdout():
            for t in order:
                try:
                    out[t] = [int.from_bytes(bytes(x), 'big') if not isinstance(x, int) else x for x in P.ppc_mn.asm(t)]
                except Exception as ex:
                    out[t] = 'EXC:%s' % type(ex).__name__
        return out
    fwd = core.isolated(run_in_order, texts)
    bwd = core.isolated(run_in_order, texts[::-1])
    mid = core.isolated(run_in_order, texts[len(texts) // 2:] + texts[:len(texts) // 2])
    for t in texts:
        part.n += 1
        if fwd[t] == bwd[t] == mid[t]:
            part.keys.add(core.h64(('order', t)))
        else:
            part.violation('step=asm-history mnemo=%s' % t.split()[0], 'asm(%r) gives %s / %s / %s depending on which texts were assembled before it in the process' % (
                t, fwd[t], bwd[t], mid[t]), {'text': t, 'history': True}, size=len(t))


def run(tier, seed):
    t0 = time.time()
    P = PPC()
    part = core.run_sharded(shard_pairs, (tier, seed), nshards=core.NPROC * 2)
    part.counters['class_pairs'] = len(P.tab_mn) * (len(P.tab_mn) - 1) // 2
    pw = core.run_sharded(shard_words, (tier, seed), nshards=core.NPROC * 4)
    part.counters['structured_words'] = pw.n
    part.merge(pw)
    rule = ('(a) every pair of the %d instruction classes (%d pairs): per-field acceptance sets obtained from the real mask check() methods '
            '(each verified to read only its own bits); every assignment of the union of constrained bits enumerated (numpy) - a complete decision '
            'over all 2^32 words; any overlap is re-checked with the real class check() with free bits all-0 and all-1. (b) structured words: 64 '
            'primary x 2048 low-11-bit patterns x operand-field patterns + D-form immediates + all BO x BI + special-purpose registers: unique class, '
            'bin() == word, str() works, asm(str)[0] == word. (c) (class, llvm-mc MCInst opcode) must be in the reviewed relation table '
            'mc/ppc_llvm_pairs.json. distinct = distinct words / class pairs' % (len(P.tab_mn), len(P.tab_mn) * (len(P.tab_mn) - 1) // 2))
    return core.finish('C18', tier, seed, t0, part, rule, exhaustive=True, space={'classes': len(P.tab_mn)},
                       assumptions=['llvm-mc 14 (powerpc) for the architecture claim, through a reviewed (class, MCInst name) relation table',
                                    'a class check() is the conjunction of its mask checks (validated on every overlap witness)'])


def replay(w):
    P = PPC()
    part = core.Part()
    if w.get('history'):
        asm_order_case(part, P)
        bad = [v[1] for k, v in part.viols.items() if w['text'].split()[0] in k]
        return bool(bad), '\n'.join(bad) or 'ok'
    with core.quiet_stdout():
        word_case(part, P, w['word'], llvm_names([w['word']])[0], load_relation(), None)
    if part.viols:
        return True, '\n'.join('%s: %s' % (k, v[1]) for k, v in part.viols.items())
    return False, 'ok'


if __name__ == '__main__':
    # hand tool: learn the (class, llvm name) relation on the thorough space, for review
    core.setup_env(warm_ply=False)
    import multiprocessing
    res = set()
    with multiprocessing.get_context('fork').Pool(core.NPROC) as pool:
        for p in pool.imap_unordered(core._shard_entry, [(shard_words, s, 64, ('thorough', 0, True)) for s in range(64)]):
            if isinstance(p, tuple):
                print(p[1])
                raise SystemExit(2)
            res |= p.learned
    json.dump({'pairs': sorted(res)}, open(REL_FILE + '.learned', 'w'), indent=0)
    print(len(res), 'pairs written to', REL_FILE + '.learned')
