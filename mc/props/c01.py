"""C01 - x86 decoding agrees with IA-32.  Every string of S_x86 is decoded by the real x86mnemo.dis and by
GNU objdump (llvm-mc adjudicates differences); length, raw bytes and the normal form of the Intel
rendering are compared field by field."""
import time, sys
from .. import core, x86space as S, x86ref as R

NEEDS_X86 = True
CHUNK_UNITS = 24


def decode_all(ia32, cases):
    out = []
    dis = ia32.x86mnemo.dis
    for b, meta in cases:
        slot = b.ljust(R.SLOT, b'\x90')
        try:
            i = dis(slot)
            if i is None:
                out.append(None)
            else:
                out.append((i.l, bytes(i.b) if not isinstance(i.b, bytes) else i.b, str(i), i, str(i)))
        except Exception as ex:
            out.append(('EXC', type(ex).__name__))
    return out


def judge(b, meta, mx, od, idx):
    """returns ('skip', reason) | ('ok', nf) | ('bad', field, detail)"""
    if mx is None:
        return ('skip', 'miasmx-rejects')
    if mx[0] == 'EXC':
        return ('skip', 'miasmx-raises (C10)')
    if od is None or od[1] is None:
        return ('skip', 'reference-unparsable')
    olen, otext = od
    if '(bad)' in otext or otext.startswith('.byte') or otext.startswith('.'):
        return ('skip', 'reference-rejects')
    l, raw, text, ins = mx[:4]
    try:
        nfo, implied16 = R.parse_intel(otext, addr=idx * R.SLOT, length=olen, source='od')
    except R.Unparsable as ex:
        return ('skip', 'reference-unparsable')
    if R.has_superfluous_prefix(nfo, meta[0], otext):
        return ('skip', 'superfluous-prefix')
    if olen > 15:
        return ('skip', 'reference-overlong')
    if l != olen and meta[1] == '1' and meta[2] == 0x9b and nfo.mnemo.startswith('f'):
        return ('skip', 'reference folds fwait into the next x87 instruction')
    if len(mx) > 4 and mx[4] != text:
        # "as shown by its Intel-syntax rendering": the rendering is a function of the decoded instruction, not of how often it was shown
        return ('bad', 'rendering-changes', 'first rendering %r, second rendering of the same object %r' % (text.strip(), mx[4].strip()))
    if l != olen:
        return ('bad', 'length', 'miasmX length %d (%s), reference length %d (%s)' % (l, text.strip(), olen, otext))
    if raw != b.ljust(R.SLOT, b'\x90')[:l]:
        return ('bad', 'rawbytes', 'reported bytes %s are not the consumed prefix %s' % (raw.hex(), b[:l].hex()))
    try:
        nfm, _ = R.parse_intel(text, source='mx')
    except R.Unparsable as ex:
        return ('bad', 'unparsable-rendering', 'cannot read miasmX rendering %r (%s); reference: %s' % (text, ex, otext))
    hint = 16 if (0x66 in meta[0] or implied16) else None
    f = R.compare_nf(nfm, nfo, hint)
    if f:
        return ('bad', f, 'miasmX: %s | reference: %s' % (text.strip(), otext))
    return ('ok', (nfm.mnemo, tuple(o[0] for o in nfm.ops)))


def adjudicate(b, l_mx, text_mx):
    """second reference: llvm-mc.  True if llvm agrees with objdump against miasmX (or cannot tell);
    False if llvm-mc sides with miasmX on the length and the normal form (oracle disagreement)"""
    r = R.llvm_one(b)
    if r is None or r[0] is None:
        return True
    try:
        nfl, _ = R.parse_intel(r[1], source='llvm')
        nfm, _ = R.parse_intel(text_mx, source='mx')
    except R.Unparsable:
        return True
    if r[0] == l_mx and R.compare_nf(nfm, nfl) is None:
        return False
    return True


def shard(s, ns, tier, seed):
    ia32 = core.import_x86()
    part = core.Part()
    U = S.units(tier)
    mine = list(range(s, len(U), ns))
    adjud = {}
    for c0 in range(0, len(mine), CHUNK_UNITS):
        cases = []
        for ui in mine[c0:c0 + CHUNK_UNITS]:
            cases += list(S.cases_of(U[ui], tier))
        with core.quiet_stdout():
            mxs = decode_all(ia32, cases)
        ods = R.objdump_batch([b for b, m in cases])
        for idx, ((b, meta), mx, od) in enumerate(zip(cases, mxs, ods)):
            r = judge(b, meta, mx, od, idx)
            if r[0] == 'skip':
                part.skip(r[1])
            elif r[0] == 'ok':
                part.ok(core.h64(b), outcome=core.h64(r[1]), sample={'bytes': b.hex(), 'miasmx': mx[2].strip(), 'objdump': od[1]} if idx % 4001 == seed % 4001 else None)
            else:
                part.n += 1
                sig = '%s field=%s' % (S.site(meta), r[1])
                n = adjud.get(sig, 0)
                if n is True:
                    pass
                elif n < 3:
                    if adjudicate(b, mx[0], mx[2]):
                        adjud[sig] = True
                    else:
                        adjud[sig] = n + 1
                        part.counters['oracle_disagreement'] += 1
                        continue
                else:
                    part.counters['oracle_disagreement'] += 1
                    continue
                part.violation(sig, '%s: %s' % (b[:mx[0] if isinstance(mx[0], int) else 8].hex(), r[2]),
                               {'bytes': b.hex(), 'meta': [list(meta[0]), meta[1], meta[2], meta[3], meta[4]]}, size=len(meta[0]) * 1000 + meta[3])
    return part


def run(tier, seed):
    t0 = time.time()
    core.import_x86()
    part = core.run_sharded(shard, (tier, seed), nshards=core.NPROC * 6)
    U = S.units(tier)
    rule = ('case = byte string prefixes ++ map ++ opcode ++ ModRM ++ [SIB] ++ tail (cut to 15 bytes): %d work units (prefix set x opcode map x '
            'all 256 opcodes x tail) x all 256 ModRM values x SIB classes; both x86mnemo.dis and GNU objdump decode the same 32-byte slot; '
            'non-trivial = both accept and objdump reports no superfluous prefix (data16/addr16/unused segment/rep/lock); compared: length, raw '
            'bytes, and the normal form (mnemonic class, operand kinds, registers, base/index/scale, displacement mod 2^32, segment, immediates mod '
            '2^opsize, memory size keyword when both print one, branch displacement). A difference is reported only if llvm-mc does not side with '
            'miasmX. distinct = distinct byte strings' % len(U))
    return core.finish('C01', tier, seed, t0, part, rule, exhaustive=True, space={'work_units': len(U), 'modrm_sib_variants': len(S.modrm_variants(tier))},
                       assumptions=['GNU objdump 2.40 (reference), llvm-mc 14 (adjudicator), synonym table in mc/x86ref.py',
                                    'tails are fixed distinct-byte patterns (sign bits set in the quick tier)'])


def replay(w):
    ia32 = core.import_x86()
    b = bytes.fromhex(w['bytes'])
    m = w['meta']
    meta = (tuple(m[0]), m[1], m[2], m[3], m[4])
    with core.quiet_stdout():
        mx = decode_all(ia32, [(b, meta)])[0]
    od = R.objdump_batch([b])[0]
    r = judge(b, meta, mx, od, 0)
    if r[0] == 'bad':
        return True, '%s: field %s: %s' % (b.hex(), r[1], r[2])
    return False, '%s: %s' % (b.hex(), r)
