"""C16 - read sets and pattern matching are semantically exact.
(1) dependency probing: for every tree of E(<=2) and every identifier / memory cell, if two valuations
that differ only there give different values (decided on the full valuation grid), the location must be
in get_r; ExprAff.get_w names the destination.
(2) matching: every (pattern, binding) pair over a wildcard alphabet and every single-point mutant of
the instance, against a reference unifier."""
import time, itertools
import numpy as np
from .. import core, irsem, exprgen as g
from .c05 import lanes, children
from .c15 import subterms, ref_subst, kind

NEEDS_X86 = False


# ---------------------------------------------------------------------------
# (1) read sets

def ev_over(t, ids, over, salt=0):
    """irsem evaluation with some memory nodes overridden by given lane values"""
    if t in over:
        return over[t]
    k = t[0]
    if k in ('int', 'id'):
        return irsem.ev_np(t, ids, salt)
    if k == 'mem':
        return irsem.ev_np(('mem', ('__val', ev_over(t[1], ids, over, salt)), t[2], t[3]), ids, salt) if False else _mem(t, ids, over, salt)
    if k == 'slice':
        return (ev_over(t[1], ids, over, salt) >> np.uint64(t[2])) & np.uint64(irsem.mask(t[3] - t[2]))
    if k == 'compose':
        v = np.zeros(len(ids['a']), dtype=np.uint64)
        for a, s, e in t[1]:
            v |= (ev_over(a, ids, over, salt) & np.uint64(irsem.mask(e - s))) << np.uint64(s)
        return v
    if k == 'cond':
        c = ev_over(t[1], ids, over, salt)
        return np.where(c != 0, ev_over(t[2], ids, over, salt), ev_over(t[3], ids, over, salt))
    if k == 'op':
        n = irsem.width(t[2][0])
        vs = [ev_over(a, ids, over, salt) for a in t[2]]
        with np.errstate(over='ignore'):
            return irsem._op_np(t[1], n, vs) & np.uint64(irsem.mask(n))
    raise irsem.Unsupported(k)


def _mem(t, ids, over, salt):
    a = ev_over(t[1], ids, over, salt)
    v = np.zeros(len(a), dtype=np.uint64)
    ss = salt + 7 * irsem._segsalt(t[3])
    for i in range(t[2] // 8):
        v |= irsem.np_membyte(a + np.uint64(i), ss) << np.uint64(8 * i)
    return v


def grid_dep(v, n):
    m = v.reshape(n, n)
    return bool((m != m[0:1, :]).any()), bool((m != m[:, 0:1]).any())     # depends on a, on b


def names(rs):
    out = set()
    for x in rs:
        out.add(irsem.to_neutral(x))
    return out


def strip(t):
    """identifier flags are irrelevant here"""
    return t[:3] if t[0] == 'id' else t


def read_laws(part, t, w, seed):
    ids = lanes(w, seed)
    n = int(round(len(ids['a']) ** 0.5))
    e = irsem.from_neutral(t)
    wit = {'tree': t, 'w': w}
    try:
        # both query orders, each on a fresh object: a read set must not depend on what was asked before
        r_all = names(e.get_r(mem_read=True))
        r_no = names(e.get_r(mem_read=False))
        r_def = names(e.get_r())
        e2 = irsem.from_neutral(t)
        r_def &= names(e2.get_r())
        r_no &= names(e2.get_r(mem_read=False))
        r_all &= names(e2.get_r(mem_read=True))
    except Exception as ex:
        part.violation('read kind=%s exception=%s' % (kind(t), type(ex).__name__), 'get_r(%s) raises %r' % (irsem.show(t), ex), wit, irsem.size_nodes(t))
        return False
    if r_def != r_no:
        part.violation('read kind=%s default-arg' % kind(t), 'get_r() differs from get_r(mem_read=False) on %s' % irsem.show(t), wit)
        return False
    val = t[2] if t[0] == 'aff' else t
    mems = [s for s in subterms(val) if s[0] == 'mem']
    ok = True
    try:
        v = ev_over(val, ids, {})
    except irsem.Unsupported:
        return None
    da, db = grid_dep(v, n)
    a, b = ('id', 'a', w), ('id', 'b', w)
    for nm, dep, idn in (('a', da, a), ('b', db, b)):
        if dep and idn not in r_all:
            part.violation('read kind=%s missing=id mem_read=True under=%s' % (kind(t), under(val, idn)),
                           'value of %s depends on %s but get_r(mem_read=True) = %s' % (irsem.show(t), nm, sorted(irsem.show(x) for x in r_all)),
                           wit, irsem.size_nodes(t))
            ok = False
    # dependence through non-address positions: override every memory node by a value independent of a, b
    if mems:
        over = {m: np.full(len(ids['a']), (0x5a5a5a5a5a5a5a5a >> (i % 7)) & irsem.mask(m[2]), dtype=np.uint64) for i, m in enumerate(mems)}
        v2 = ev_over(val, ids, over)
        da2, db2 = grid_dep(v2, n)
    else:
        da2, db2 = da, db
    for nm, dep, idn in (('a', da2, a), ('b', db2, b)):
        if dep and idn not in r_no:
            part.violation('read kind=%s missing=id mem_read=False under=%s' % (kind(t), under(val, idn, stop_at_mem=True)),
                           'value of %s depends on %s outside any address but get_r(mem_read=False) = %s' % (
                               irsem.show(t), nm, sorted(irsem.show(x) for x in r_no)), wit, irsem.size_nodes(t))
            ok = False
    # memory cells: perturb one cell's content
    for m in mems:
        over = {m: ev_over(m, ids, {}) ^ np.uint64(irsem.mask(m[2]))}
        try:
            vm = ev_over(val, ids, over)
        except irsem.Unsupported:
            continue
        if (vm != v).any():
            for nm, rs in (('True', r_all), ('False', r_no)):
                # with mem_read=False only cells outside addresses of other cells are visible
                if nm == 'False' and any(m != o and m in subterms(o[1]) for o in mems):
                    continue
                if m not in rs:
                    part.violation('read kind=%s missing=mem mem_read=%s under=%s' % (kind(t), nm, under(val, m)),
                                   'value of %s depends on cell %s but get_r(mem_read=%s) = %s' % (
                                       irsem.show(t), irsem.show(m), nm, sorted(irsem.show(x) for x in rs)), wit, irsem.size_nodes(t))
                    ok = False
    if t[0] == 'aff':
        try:
            ws = names(e.get_w())
        except Exception as ex:
            part.violation('write kind=aff exception=%s' % type(ex).__name__, 'get_w(%s) raises %r' % (irsem.show(t), ex), wit)
            return False
        tn = irsem.to_neutral(e)
        dst = tn[1]
        if ws != {dst}:
            part.violation('write kind=aff dst=%s' % kind(t[1]), 'get_w(%s) = %s, destination is %s' % (
                irsem.show(t), sorted(irsem.show(x) for x in ws), irsem.show(dst)), wit)
            ok = False
    return ok


def under(t, target, stop_at_mem=False):
    """the chain of node kinds from the root to (one occurrence of) target: names the get_r that dropped it"""
    def rec(x):
        if x == target:
            return []
        k = x[0]
        if k == 'mem':
            if stop_at_mem:
                return None
            r = rec(x[1])
            return None if r is None else ['mem'] + r
        for i, c in enumerate(children(x)):
            r = rec(c)
            if r is not None:
                lab = k if k != 'cond' else 'cond.%s' % ('cond', 'src1', 'src2')[i]
                return [lab] + r
        return None
    r = rec(t)
    return '/'.join(r[-3:]) if r else '?'


def read_trees(w, tier):
    a, b = g.ID('a', w), g.ID('b', w)
    for t in g.E1(w, 'full' if tier == 'thorough' else 'mid'):
        yield t
    for t in g.exemplars(w):
        yield t
    if w >= 8:
        ad = g.addr_of(w)
        M = [g.MEM(ad, w), g.MEM(ad, w, g.ID('ds', 16)), g.MEM(g.OP('+', ad, g.I(32, 4)), 8), g.MEM(g.MEM(ad, 32), w)]
        for m in M:
            yield m
            for x in (a, b, g.I(w, 1)):
                if g._w(m) == w:
                    for op in g.BIN + g.SHIFT:
                        yield g.OP(op, m, x)
                        yield g.OP(op, x, m)
                    yield g.COND(m, x, b)
                    yield g.COND(x, m, b)
                    yield g.COND(x, b, m)
                    yield g.COND(g.OP('&', m, g.I(w, 1)), x, b)
                    yield g.OP('+', x, b, m)
            yield g.SL(m, 0, 4) if g._w(m) >= 4 else m
            yield g.OP('parity', m)
            yield g.OP('-', m)
            if g._w(m) == w and w < 64:
                yield g.SL(g.CO((m, 0, w), (a, w, 2 * w)), w // 2, w // 2 + w)
                yield g.SL(g.CO((a, 0, w), (m, w, 2 * w)), w // 2, w // 2 + w)
                yield g.SL(g.CO((a, 0, w), (m, w, 2 * w)), 0, w)
                yield g.SL(g.CO((a, 0, w), (b, w, 2 * w)), w, 2 * w)
                yield g.SL(g.CO((a, 0, w), (b, w, 2 * w)), 4, w + 4)
                yield g.SL(g.CO((a, 0, w), (b, w, 2 * w)), w // 2, 2 * w)
    # compose/slice geometry: every 2- and 3-slot tiling, every slice over the cut points
    cs = g.cuts(w)
    for k in [c for c in cs if 0 < c < w]:
        co = g.CO((g.SL(a, 0, k), 0, k), (g.SL(b, k, w), k, w))
        yield co
        for i, s in enumerate(cs):
            for e in cs[i + 1:]:
                yield g.SL(co, s, e)
    E2 = g.E2(w, 'min', 'red', pairs='small')
    if w == 8 or (tier == 'thorough' and w == 32):
        for t in E2:
            yield t
    # operators with a repeated operand (a shortcut for x^x, x-x, x&x must not swallow a further operand)
    rep = []
    for op in g.ASSOC:
        rep += [g.OP(op, b, b, a), g.OP(op, a, b, b), g.OP(op, b, a, b), g.OP(op, a, a), g.OP(op, a, a, a)]
    rep += [g.OP('-', a, a), g.OP('-', g.OP('+', a, b), a), g.COND(g.OP('^', a, a), b, a), g.COND(b, a, a)]
    for t in rep:
        yield t
        yield ('aff', g.ID('c', w), t)
        if w >= 8:
            yield ('aff', g.MEM(g.addr_of(w), w), t)
    # assignments
    ex = g.exemplars(w)
    for x in ex[:10] + [a, b]:
        if g._w(x) != w:
            continue
        yield ('aff', a, x)
        if w >= 8:
            yield ('aff', g.MEM(g.addr_of(w), w), x)
            yield ('aff', g.MEM(g.addr_of(w), w, g.ID('es', 16)), x)
        if w >= 8:
            yield ('aff', g.SL(a, 0, w // 2), g.SL(x, 0, w // 2))
            yield ('aff', g.SL(b, w // 2, w), g.SL(x, 0, w // 2))


# ---------------------------------------------------------------------------
# (2) matching

def unify(p, e, W, env=None):
    """reference unifier on neutral trees; W = set of wildcard identifiers"""
    if env is None:
        env = {}
    if p in W:
        if p in env:
            return env if env[p] == e else None
        env[p] = e
        return env
    if p[0] != e[0]:
        return None
    k = p[0]
    if k in ('int', 'id'):
        return env if p == e else None
    if k == 'mem':
        if p[2] != e[2] or (p[3] is None) != (e[3] is None):
            return None
        if p[3] is not None and unify(p[3], e[3], W, env) is None:
            return None
        return unify(p[1], e[1], W, env)
    if k == 'op':
        if p[1] != e[1] or len(p[2]) != len(e[2]):
            return None
        for x, y in zip(p[2], e[2]):
            if unify(x, y, W, env) is None:
                return None
        return env
    if k == 'slice':
        if p[2:] != e[2:]:
            return None
        return unify(p[1], e[1], W, env)
    if k == 'compose':
        if len(p[1]) != len(e[1]):
            return None
        for (x, s, t), (y, s2, t2) in zip(p[1], e[1]):
            if (s, t) != (s2, t2) or unify(x, y, W, env) is None:
                return None
        return env
    if k == 'cond':
        for i in (1, 2, 3):
            if unify(p[i], e[i], W, env) is None:
                return None
        return env
    return None


def divergence(x, y):
    """node kind and field at the first structural difference (names the matcher branch at fault)"""
    if x[0] != y[0]:
        return 'kind:%s/%s' % (x[0], y[0])
    k = x[0]
    if k in ('int', 'id'):
        return '%s.leaf' % k
    if k == 'mem':
        if x[2] != y[2]:
            return 'mem.size'
        if x[3] != y[3]:
            return 'mem.segm'
        return divergence(x[1], y[1])
    if k == 'op':
        if x[1] != y[1]:
            return 'op.op'
        if len(x[2]) != len(y[2]):
            return 'op.arity'
        for a, b in zip(x[2], y[2]):
            if a != b:
                return divergence(a, b)
    if k == 'slice':
        if x[2:] != y[2:]:
            return 'slice.bounds'
        return divergence(x[1], y[1])
    if k == 'compose':
        if len(x[1]) != len(y[1]):
            return 'compose.arity'
        for (a, s, e), (b, s2, e2) in zip(x[1], y[1]):
            if (s, e) != (s2, e2):
                return 'compose.bounds'
            if a != b:
                return divergence(a, b)
    if k == 'cond':
        for i in (1, 2, 3):
            if x[i] != y[i]:
                return divergence(x[i], y[i])
    return k


def patterns(w, tier):
    X, Y = g.ID('X', w), g.ID('Y', w)
    a, b = g.ID('a', w), g.ID('b', w)
    sub = {a: X, b: Y}
    P = [X, Y]
    src = g.E1(w, 'min') + g.exemplars(w)
    if tier == 'thorough':
        src = src + list(itertools.islice(g.E2(w, 'min', 'red', 'small'), 0, None, 211))
    for t in src:
        P.append(ref_subst(t, sub))
        P.append(ref_subst(t, {a: X}))
    if w >= 8:
        ad = ref_subst(g.addr_of(w), sub)
        P += [g.MEM(ad, w), g.MEM(ad, w, g.ID('ds', 16)), g.MEM(g.OP('+', ad, g.I(32, 4)), 8)]
        if w == 32:
            P += [g.MEM(g.OP('+', g.OP('&', X, g.I(32, 0xFFFFFFFC)), Y), 32), g.MEM(X, 32), g.MEM(X, 8), g.OP('+', g.MEM(X, 32), Y)]
    seen, out = set(), []
    for p in P:
        if p not in seen:
            seen.add(p)
            out.append(p)
    return out


def binding_terms(w):
    a, b = g.ID('a', w), g.ID('b', w)
    out = [a, b, g.I(w, 1), g.OP('+', a, b), g.OP('*', a, g.I(w, 3)), g.COND(a, b, g.I(w, 0))]
    # the expression may mention the wildcard identifiers themselves (X bound to X or to Y, Y inside a bound term)
    out += [g.ID('X', w), g.ID('Y', w), g.OP('+', g.ID('Y', w), a)]
    if w >= 8:
        out.append(g.CO((g.SL(a, 0, 4), 0, 4), (g.SL(b, 4, w), 4, w)))
        out.append(g.MEM(g.addr_of(w), w))
    return out


def do_match(e, p, W):
    X = irsem.X()
    eo, po = irsem.from_neutral(e), irsem.from_neutral(p)
    tks = [irsem.from_neutral(x) for x in sorted(W)]
    r = X.MatchExpr(eo, po, tks)
    if r is False:
        return False
    if r is True:
        return {}
    if isinstance(r, dict):
        return {irsem.to_neutral(k): irsem.to_neutral(v) for k, v in r.items()}
    return ('odd', r)


def match_case(part, p, e, W, w, expect_instance):
    wit = {'pattern': p, 'expr': e, 'w': w, 'wild': sorted(W)}
    try:
        r = do_match(e, p, W)
    except Exception as ex:
        part.violation('match exception=%s pattern=%s expr=%s' % (type(ex).__name__, kind(p), kind(e)),
                       'MatchExpr(%s, %s) raises %r' % (irsem.show(e), irsem.show(p), ex), wit, irsem.size_nodes(e))
        return
    ref = unify(p, e, set(W))
    if r is not False:
        if isinstance(r, tuple):
            part.violation('match odd-result pattern=%s' % kind(p), 'MatchExpr returned %r' % (r[1],), wit)
            return
        back = ref_subst(p, r)
        if back != e:
            where = 'at=%s' % divergence(back, e)
            if ref is None:
                part.violation('match missed-failure %s' % where,
                               'MatchExpr(%s, %s) succeeds with %s although no binding exists' % (
                                   irsem.show(e), irsem.show(p), {irsem.show(k): irsem.show(v) for k, v in r.items()}), wit, irsem.size_nodes(e))
            else:
                part.violation('match unsound %s' % where,
                               'MatchExpr(%s, %s) = %s; substituting gives %s' % (
                                   irsem.show(e), irsem.show(p), {irsem.show(k): irsem.show(v) for k, v in r.items()}, irsem.show(back)),
                               wit, irsem.size_nodes(e))
            return
    part.ok(core.h64(('m', repr(p), repr(e))), outcome=('match', r is not False, ref is not None),
            sample={'pattern': irsem.show(p), 'expr': irsem.show(e), 'matched': r is not False} if len(part.samples) < 3 and irsem.size_nodes(p) > 2 else None)


def match_space(w, tier):
    X, Y = g.ID('X', w), g.ID('Y', w)
    B = binding_terms(w)
    for p in patterns(w, tier):
        has = [x for x in (X, Y) if x in subterms(p)]
        for vals in itertools.product(B, repeat=len(has)):
            bind = dict(zip(has, vals))
            e = ref_subst(p, bind)
            yield p, e, (X, Y), True
            if tier == 'thorough' or len(has) < 2 or vals[0] in B[:3]:
                seen = set()
                for m in itertools.chain(g.mutants(e, 2), (x for x in g.eq_twins(e) if e[0] in ('op', 'compose', 'slice', 'mem'))):
                    if m not in seen and m != e:
                        seen.add(m)
                        yield p, m, (X, Y), False
        # a wildcard list that does not contain the pattern's identifiers: plain equality
        yield p, p, (), True
        yield p, ref_subst(p, {X: Y}), (), False
    # a wildcard as segment selector, used twice: bound consistently or not at all
    if w == 32:
        S = g.ID('S', 16)
        segs = [g.ID('ds', 16), g.ID('fs', 16), None]
        for mk in (lambda m1, m2: g.OP('^', m1, m2), lambda m1, m2: g.COND(m1, m2, g.I(32, 1)), lambda m1, m2: g.OP('+', m1, g.I(32, 4), m2)):
            p = mk(g.MEM(X, 32, S), g.MEM(Y, 32, S))
            for s1 in segs:
                for s2 in segs:
                    for a1, a2 in ((g.ID('a', 32), g.ID('b', 32)), (g.ID('a', 32), g.ID('a', 32))):
                        yield p, mk(g.MEM(a1, 32, s1), g.MEM(a2, 32, s2)), (X, Y, S), s1 == s2 and s1 is not None
        p = g.OP('+', S if False else g.MEM(X, 32, S), g.MEM(X, 32, S))
    # concatenation geometry: bare wildcards as parts; every pair of 2- and 3-slot tilings over the cut points
    # (an instance iff the two tilings coincide; otherwise parts share one, both or no boundary with the pattern)
    cs = [c for c in g.cuts(w) if 0 < c < w]
    til = [(0, c, w) for c in cs] + [(0, c, d, w) for c in cs for d in cs if c < d]
    for t1 in til:
        wild = tuple(g.ID('XYZ'[i], t1[i + 1] - t1[i]) for i in range(len(t1) - 1))
        p = g.CO(*[(wild[i], t1[i], t1[i + 1]) for i in range(len(t1) - 1)])
        for t2 in til:
            if len(t2) != len(t1):
                continue
            for leaf in ('id', 'int'):
                parts = []
                for i in range(len(t2) - 1):
                    k = t2[i + 1] - t2[i]
                    parts.append(((g.I(k, 1) if leaf == 'int' and k in (1, 8, 16, 32, 64) else g.ID('abc'[i], k)), t2[i], t2[i + 1]))
                yield p, g.CO(*parts), wild, t1 == t2


def widths(tier):
    return (8, 32) if tier == 'quick' else (8, 32, 16, 64, 1)


def shard(s, ns, tier, seed):
    irsem.SEGAWARE = True
    part = core.Part()
    for w in widths(tier):
        for i, t in enumerate(read_trees(w, tier)):
            if (i // 16) % ns != s:
                continue
            try:
                irsem.width(t if t[0] != 'aff' else t[2], True)
            except irsem.IllTyped:
                continue
            r = read_laws(part, t, w, seed)
            if r:
                part.ok(core.h64(('r', w, repr(t))), sample=irsem.show(t) if i % 4999 == seed % 4999 else None)
            elif r is None:
                part.skip('uninterpreted')
            else:
                part.n += 1
            part.counters['read_trees'] += 1
        for i, (p, e, W, inst) in enumerate(match_space(w, tier)):
            if (i // 64) % ns != s:
                continue
            match_case(part, p, e, W, w, inst)
            part.counters['match_cases'] += 1
    return part


def run(tier, seed):
    t0 = time.time()
    irsem.SEGAWARE = True
    irsem.selfcheck()
    part = core.run_sharded(shard, (tier, seed), nshards=core.NPROC * 4)
    part.n = part.counters['read_trees'] + part.counters['match_cases']
    rule = ('(1) read sets: every tree of E1 + exemplars + memory/compose/slice geometry family + E2(reduced, w=8) + assignments; '
            'for identifiers a, b the dependence is decided on the full valuation grid (all 2^16 valuations at w=8; boundary grid elsewhere): '
            'value varies along a => a in get_r(mem_read=True); varies with all memory nodes frozen => a in get_r(mem_read=False); every '
            'memory node whose perturbed content changes the value must be in get_r; get_w() of an assignment = {destination}. '
            '(2) matching: every pattern (E1(min)+exemplars with a,b -> wildcards X,Y, memory patterns) x every binding into an 8-term '
            'alphabet (instances) x every single-point mutant of the instance (non-instances when the reference unifier finds no binding): '
            'a successful MatchExpr must reproduce the expression by substitution. distinct = distinct trees / (pattern, expression) pairs')
    return core.finish('C16', tier, seed, t0, part, rule, exhaustive=True, space={'widths': list(widths(tier))},
                       assumptions=['irsem value semantics; dependence is decided on the enumerated valuation grid only',
                                    'completeness of MatchExpr (success whenever a binding exists) is not demanded',
                                    '"success" = the return value is not the boolean False'])


def replay(wt):
    irsem.SEGAWARE = True

    def tup(x):
        return tuple(tup(i) for i in x) if isinstance(x, list) else x
    part = core.Part()
    if 'pattern' in wt:
        match_case(part, tup(wt['pattern']), tup(wt['expr']), tuple(tup(x) for x in wt['wild']), wt['w'], None)
    else:
        read_laws(part, tup(wt['tree']), wt['w'], 0)
    if part.viols:
        return True, '\n'.join('%s: %s' % (k, v[1]) for k, v in part.viols.items())
    return False, 'ok'
