"""C06 - symbolic evaluation is sound substitution.
Bounded exhaustive: every tree of the expression families x every binding pattern
{absent, constant, symbolic} per identifier (and per same-address memory cell), each on a FRESH
eval_abs and fresh expression objects; the result is compared with reference substitution under irsem
on all 2^16 valuations (w=8) / the boundary product.  With all inputs constant the result must be
the ExprInt the operators define (n-ary operands included)."""
import time, itertools
import numpy as np
from .. import core, irsem, exprgen as g
from .c05 import lanes, children, coarse, shape
from .c15 import subterms, ref_subst, kind

NEEDS_X86 = False


def EA():
    import miasmx.expression.expression_eval_abstract as ea
    import logging
    lg = logging.getLogger('expr_eval_int')
    lg.setLevel(100)
    return ea


_log = None


def machine(ea, binding):
    """fresh eval_abs whose state binds the given neutral keys to fresh expression objects"""
    global _log
    if _log is None:
        import logging
        _log = logging.getLogger('verif_quiet')
        _log.setLevel(100)
        _log.propagate = False
    st = {}
    for k, v in binding.items():
        st[irsem.from_neutral(k)] = irsem.from_neutral(v)
    return ea.eval_abs(st, log=_log)


def id_menu(w, sym, level):
    """binding options for one identifier: None = absent"""
    p = g.ID(sym, w)
    consts = [g.I(w, v) for v in ((0, 1, 1 << (w - 1), irsem.mask(w), 3) if w > 1 else (0, 1))]
    # symbolic bindings: a fresh symbol, an expression over it, and a conditional between two constants (the form flags take)
    syms = [p, g.OP('+', p, g.I(w, 1)), g.COND(p, g.I(w, 1), g.I(w, 2))] if w > 1 else [p, g.COND(p, g.I(1, 1), g.I(1, 0))]
    if level == 'const':
        return consts
    if w >= 16:     # the state after 'mov ax, imm16': constant low half, symbolic high half (and the reverse)
        half = w // 2
        syms = syms + [g.CO((g.I(half, 0x1234 & irsem.mask(half)), 0, half), (g.SL(p, half, w), half, w))]
        if level != 'small':
            syms = syms + [g.CO((g.SL(p, 0, half), 0, half), (g.I(half, 0xfe12 & irsem.mask(half)), half, w))]
    if level == 'small':
        return [None, consts[1], consts[-2] if w > 1 else consts[0], p, syms[2] if w > 1 else syms[-1]] + (syms[3:] if w >= 16 else [])
    return [None] + consts + syms


LIFTER_TREES = None


def lifter_trees(w):
    """operators the x86 lifter emits (same argument conventions as ia32_sem)"""
    a, b = g.ID('a', w), g.ID('b', w)
    out = []
    if w == 32:
        for op in ('umul32_lo', 'umul32_hi', 'imul32_lo', 'imul32_hi'):
            out.append(g.OP(op, a, b))
        out += [g.OP('div32', a, b, g.I(32, 7)), g.OP('rem32', a, b, g.I(32, 7)), g.OP('idiv32', a, b, g.I(32, 7)),
                g.OP('irem32', a, b, g.I(32, 7)), g.OP('bsf', a), g.OP('bsr', a)]
        for op in ('<<<c_rez', '<<<c_cf', '>>>c_rez', '>>>c_cf'):
            out.append(g.OP(op, a, g.SL(b, 0, 8), g.ID('cf1', 1)))
            out.append(g.OP(op, a, g.I(8, 3), g.I(1, 1)))
    if w in (8, 16, 32):
        # rotate through carry: every count 0..31 (masked to 5 bits, then reduced mod width+1) plus unmasked ones, both carries
        for op in ('<<<c_rez', '<<<c_cf', '>>>c_rez', '>>>c_cf'):
            for c in list(range(32)) + [0x20, 0x29, 0x80, 0xff]:
                for cf in (0, 1):
                    out.append(g.OP(op, a, g.I(8, c), g.I(1, cf)))
    if w in (1, 8, 16):
        # a count held in a wider type than the shifted value (flags shifted by byte counts, al shifted by a dword):
        # counts at and beyond the value's width and beyond 2^width
        for op in ('<<', '>>', 'a>>'):
            for cw in (8, 32):
                if cw > w:
                    for c in sorted(set([0, 1, 2, w - 1, w, w + 1, 1 << w, (1 << w) + 1, (1 << cw) - 1])):
                        if 0 <= c < (1 << cw):
                            out.append(g.OP(op, a, g.I(cw, c)))
    if w == 16:
        for op in ('umul16_lo', 'umul16_hi', 'imul16_lo', 'imul16_hi'):
            out.append(g.OP(op, a, b))
        out += [g.OP('div16', a, b, g.I(16, 7)), g.OP('rem16', a, b, g.I(16, 7))]
    if w == 8:
        out += [g.OP('div8', a, b, g.I(8, 7)), g.OP('rem8', a, b, g.I(8, 7))]
    out += [g.OP('!', a), g.OP('<', a, b)]
    # concatenations the lifter builds: sub-register writes, flag bytes (lahf/pushf), carry-in extension
    if 2 * w <= 64 and w > 1:
        out += [g.CO((a, 0, w), (b, w, 2 * w)), g.CO((b, 0, w), (a, w, 2 * w)), g.CO((a, 0, w), (g.I(w, 0), w, 2 * w)),
                g.CO((g.I(w, 3), 0, w), (a, w, 2 * w))]
    if w == 8:
        out += [g.CO((a, 0, 8), (g.I(8, 0x5a), 8, 16), (b, 16, 24), (g.I(8, 1), 24, 32)),
                g.CO((g.I(8, 0x5a), 0, 8), (a, 8, 16), (g.I(16, 0x1234), 16, 32))]
    if w == 1:
        out += [g.CO((a, 0, 1), (g.I(1, 1), 1, 2), (b, 2, 3), (g.I(1, 0), 3, 4), (a, 4, 5), (g.I(1, 0), 5, 6), (b, 6, 7), (a, 7, 8)),
                g.CO((a, 0, 1), (g.I(1, 1), 1, 2), (g.I(1, 1), 2, 3), (g.I(1, 0), 3, 4), (g.I(1, 0), 4, 5), (g.I(1, 0), 5, 6), (g.I(1, 1), 6, 7), (g.I(1, 1), 7, 8)),
                g.CO((g.I(1, 1), 0, 1), (a, 1, 2), (g.I(1, 1), 2, 3), (g.I(1, 0), 3, 4), (g.I(1, 0), 4, 5), (g.I(1, 0), 5, 6), (g.I(1, 1), 6, 7), (g.I(1, 1), 7, 8)),
                g.CO((a, 0, 1), (g.SL(g.I(32, 0), 1, 32), 1, 32)), g.CO((b, 0, 1), (a, 1, 2), (g.I(1, 1), 2, 3), (g.SL(g.I(8, 0xf0), 3, 8), 3, 8))]
    return out


def families(tier):
    F = []
    ws = (8, 32) if tier == 'quick' else g.WIDTHS
    if tier == 'quick':
        F.append(('mixed', 'L', 1, 'full'))
    for w in ws:
        F.append(('mixed', 'E1', w, 'small' if tier == 'quick' else 'full'))
        F.append(('const', 'E1', w, 'const'))
        F.append(('mixed', 'L', w, 'full'))
        F.append(('mixed', 'N', w, 'small'))
        F.append(('const', 'T', w, 'const'))
    F.append(('const', 'E2q', 8, 'const'))
    if tier == 'thorough':
        F.append(('const', 'E2q', 32, 'const'))
        F.append(('mixed', 'E2q', 8, 'small'))
        for w in ws:
            F.append(('mixed', 'T', w, 'small'))
    F.append(('mem', 'M', 32, 'full'))
    return F


def enum_family(name, w):
    if name == 'E1':
        return iter(g.E1(w))
    if name == 'T':
        return g.targeted(w)
    if name == 'N':
        return g.near_equal(w)
    if name == 'L':
        return iter(lifter_trees(w))
    if name == 'E2q':
        return g.E2(w, 'min', 'red', pairs='small')
    raise ValueError(name)


def bindings_for(t, w, level):
    ids = [x for x in (g.ID('a', w), g.ID('b', w)) if x in subterms(t)]
    menus = [id_menu(w, 'p' if x[1] == 'a' else 'q', level) for x in ids]
    for combo in itertools.product(*menus):
        yield {x: v for x, v in zip(ids, combo) if v is not None}


def pattern_of(t, bind, w):
    ps = []
    for nm in ('a', 'b'):
        x = g.ID(nm, w)
        if x not in subterms(t):
            continue
        v = bind.get(x)
        ps.append('absent' if v is None else ('const' if v[0] == 'int' else 'sym'))
    return '+'.join(ps) or 'closed'


def root_label(t):
    if t[0] == 'op':
        return 'op %s/%d' % (t[1], len(t[2]))
    return t[0]


def first_bad_subtree(t, bad):
    """smallest sub-tree on which bad() still holds"""
    changed = True
    while changed:
        changed = False
        for c in children(t):
            try:
                irsem.width(c, True)
                if bad(c):
                    t = c
                    changed = True
                    break
            except Exception:
                continue
    return t


def judge(t, bind, w, seed, ea, cells=None, cellbind=None):
    """None if ok else (kind, detail). cells: oracle memory cells; cellbind: state bindings for memory"""
    st = dict(bind)
    if cellbind:
        st.update(cellbind)
    m = machine(ea, st)
    e = irsem.from_neutral(t)
    try:
        r = m.eval_expr(e, {})
    except core.Timeout:
        raise
    except ValueError as ex:
        msg = str(ex)
        if 'div by 0' in msg or 'Divide Error' in msg:
            return ('skip', 'division error (documented)')
        return ('exception:ValueError', repr(ex)[:160])
    except ZeroDivisionError:
        return ('skip', 'division by zero')
    except Exception as ex:
        return ('exception:%s' % type(ex).__name__, repr(ex)[:160])
    try:
        tr = irsem.to_neutral(r)
        w0, w1 = irsem.width(t), irsem.width(tr)
    except Exception as ex:
        return ('result-malformed', '%s: %r' % (type(r).__name__, ex))
    expect = ref_subst(t, bind)
    allconst = not any(s[0] == 'id' for s in subterms(expect)) and 'mem' not in repr(expect)
    if w0 != w1:
        return ('width', 'width %d became %d: %s' % (w0, w1, irsem.show(tr)))
    if allconst:
        try:
            ev = irsem.ev_int(expect, irsem.Env({}))
        except irsem.Undefined:
            return ('skip', 'undefined in the reference')
        except irsem.Unsupported:
            return ('skip', 'uninterpreted')
        if tr[0] != 'int':
            if w0 not in (1, 8, 16, 32, 64):
                # no ExprInt of this width exists: only the value is constrained
                try:
                    got = irsem.ev_int(tr, irsem.Env({}))
                except Exception as ex:
                    return ('result-malformed', repr(ex)[:100])
                if got != ev:
                    return ('value', 'all inputs constant: result %s = 0x%X, operators define 0x%X' % (irsem.show(tr), got, ev))
                return None
            return ('not-folded', 'all inputs constant but the result is %s (expected 0x%X)' % (irsem.show(tr), ev))
        if tr[2] != ev:
            return ('value', 'all inputs constant: result %s, operators define 0x%X' % (irsem.show(tr), ev))
        return None
    ids = dict(lanes(w, seed))
    ids['p'], ids['q'] = ids['a'], ids['b']
    ids['cf1'] = ids['b'] & np.uint64(1)
    for salt in (0, 1):
        try:
            if cells is not None:
                irsem.MEMHOOK = irsem.mem_with_cells([(irsem.ev_np(ca, ids, salt), cs, irsem.ev_np(cv, ids, salt)) for ca, cs, cv in cells])
            v0 = irsem.ev_np(expect, ids, salt)
            v1 = irsem.ev_np(tr, ids, salt)
        except irsem.Unsupported:
            return ('skip', 'uninterpreted')
        finally:
            irsem.MEMHOOK = None
        ne = np.nonzero(v0 != v1)[0]
        if len(ne):
            i = int(ne[0])
            return ('value', 'eval_expr gives %s; with u=%#x v=%#x the original is %#x, the result %#x (%d of %d valuations)' % (
                irsem.show(tr), int(ids['a'][i]), int(ids['b'][i]), int(v0[i]), int(v1[i]), len(ne), len(v0)))
        if 'mem' not in repr(t):
            break
    return None


def run_case(part, t, bind, w, seed, ea, fam, cells=None, cellbind=None, extra=''):
    r = judge(t, bind, w, seed, ea, cells, cellbind)
    key = core.h64((fam, repr(t), repr(sorted(bind.items())), extra))
    if r is None:
        part.ok(key, sample={'tree': irsem.show(t), 'state': {irsem.show(k_): irsem.show(v_) for k_, v_ in bind.items()}} if len(part.samples) < 3 else None)
        return
    if r[0] == 'skip':
        part.skip(r[1])
        return
    part.n += 1
    knd = r[0]
    tm = t
    if cells is None:
        def bad(c):
            rr = judge(c, {k: v for k, v in bind.items() if k in subterms(c)}, w, seed, ea)
            return rr is not None and rr[0] == knd
        tm = first_bad_subtree(t, bad)
    b2 = {k: v for k, v in bind.items() if k in subterms(tm)}
    rm = judge(tm, b2, w, seed, ea, cells, cellbind) or r
    if knd.startswith('exception') or knd in ('timeout', 'not-folded'):
        import re
        # the site, not the instance: operator family without its width digits, no binding pattern
        sig = 'kind=%s node=%s%s' % (knd, re.sub(r'\d+', 'N', root_label(tm)), re.sub(r'\d+', 'N', extra))
    else:
        sig = 'kind=%s node=%s binding=%s%s' % (knd, root_label(tm), pattern_of(tm, b2, w), extra)
    part.violation(sig, 'eval_expr(%s) in state {%s}: %s' % (
        irsem.show(tm), ', '.join('%s: %s' % (irsem.show(k), irsem.show(v)) for k, v in sorted(list(b2.items()) + list((cellbind or {}).items()))), rm[1]),
        {'tree': tm, 'bind': [[k, v] for k, v in b2.items()], 'w': w,
         'cells': [list(c) for c in cells] if cells else None, 'cellbind': [[k, v] for k, v in (cellbind or {}).items()]},
        irsem.size_nodes(tm) * 100 + len(b2))


def mem_cases():
    """(tree, id binding, oracle cells, state cell bindings, label) at base width 32: same-address cells"""
    w = 32
    a, b = g.ID('a', w), g.ID('b', w)
    for abind in (None, g.I(32, 0x1000), g.ID('p', 32)):
        key = a if abind is None else abind
        for cs in (8, 16, 32):
            for cv in (g.I(cs, 0xA5C3F00F & irsem.mask(cs)), g.ID('q', cs) if cs == 32 else g.SL(g.ID('q', 32), 0, cs), None):
                for rs in (8, 16, 32, 64):
                    m = g.MEM(a, rs)
                    trees = [m, g.MEM(g.OP('+', a, g.I(32, 0)), rs), g.SL(m, 0, 8), g.COND(m, g.I(32, 1), g.I(32, 2)),
                             g.MEM(a, rs, g.ID('ds', 16))]
                    if rs == 32:
                        trees += [g.OP('+', m, b), g.OP('^', m, m), g.MEM(m, 32), g.OP('+', m, g.I(32, 1), g.I(32, 2))]
                    for bb in (None, g.I(32, 5)):
                        bind = {}
                        if abind is not None:
                            bind[a] = abind
                        if bb is not None:
                            bind[b] = bb
                        cells = [(key, cs, cv)] if cv is not None else []
                        cellbind = {g.MEM(key, cs): cv} if cv is not None else {}
                        lab = ' cell=%d/%s read=%d base=%s' % (cs, 'none' if cv is None else ('const' if cv[0] == 'int' else 'sym'), rs,
                                                             'absent' if abind is None else ('const' if abind[0] == 'int' else 'sym'))
                        for t in trees:
                            yield t, bind, cells, cellbind, lab


def struct_cases():
    """(label, width for the lanes, binding, [trees evaluated one after the other on ONE machine]).
    (1) two registers bound to adjacent / overlapping slices of one symbol (the state after 'mov bl, al; mov bh, ah'), used together in
        concatenations and again alone afterwards: evaluation is a function of the state, so each step must equal its substitution;
    (2) conditions that evaluate to a conditional between two constants, for every pair of constants incl. (0,0) and (k,k)."""
    for w in (16, 32):
        h = w // 2
        p = g.ID('p', w)
        for (l0, l1), (h0, h1) in (((0, h), (h, w)), ((0, 8), (8, 16)), ((8, 16), (16, 24)) if w == 32 else ((4, 8), (8, 12)), ((0, h), (0, h))):
            lo, hi = g.ID('a', l1 - l0), g.ID('b', h1 - h0)
            if (h1 - h0) != (l1 - l0):
                continue
            n = l1 - l0
            bind = {lo: g.SL(p, l0, l1), hi: g.SL(p, h0, h1)}
            cat = g.CO((lo, 0, n), (hi, n, 2 * n))
            rev = g.CO((hi, 0, n), (lo, n, 2 * n))
            seqs = [[cat, hi, lo], [rev, lo, hi], [g.OP('^', cat, rev), hi, lo, cat], [g.OP('+', cat, cat), g.OP('^', hi, lo)],
                    [g.COND(cat, lo, hi), cat, hi], [g.SL(cat, 0, n), g.SL(cat, n, 2 * n), hi], [g.OP('&', rev, cat), rev, lo, hi]]
            for k, trees in enumerate(seqs):
                yield ('slices w=%d lo=%d:%d hi=%d:%d seq=%d' % (w, l0, l1, h0, h1, k), w, bind, trees)
    for w in (1, 8, 32):
        a, b, c = g.ID('a', w), g.ID('b', w), g.ID('p', w)
        for k1, k2 in itertools.product((0, 1, 3) if w > 1 else (0, 1), repeat=2):
            for X, Y in ((g.I(w, 1 if w == 1 else 5), g.I(w, 0 if w == 1 else 9)), (g.ID('q', w), g.OP('+', g.ID('q', w), g.I(w, 1)) if w > 1 else g.I(1, 1))):
                # the constants are bound registers inside a nested condition / the condition itself is a register bound to c ? k1 : k2
                yield ('cond-of-cond w=%d k=%d,%d arms=%s nested' % (w, k1, k2, X[0]), w, {a: g.I(w, k1), b: g.I(w, k2)}, [g.COND(g.COND(c, a, b), X, Y)])
                yield ('cond-of-cond w=%d k=%d,%d arms=%s bound' % (w, k1, k2, X[0]), w, {a: g.COND(c, g.I(w, k1), g.I(w, k2))}, [g.COND(a, X, Y), g.COND(g.OP('^', a, g.I(w, k1)), X, Y)])


def run_struct(part, label, w, bind, trees, seed, ea):
    import re
    m = machine(ea, bind)
    ids = dict(lanes(w if w > 1 else 8, seed))
    ids['p'], ids['q'] = ids['a'], ids['b']
    if w == 1:
        ids['p'], ids['q'] = ids['a'] & np.uint64(1), ids['b'] & np.uint64(1)
    site = re.sub(r'\d+', 'N', label.split(' ')[0]) + ' ' + ' '.join(x for x in label.split(' ')[1:] if x.startswith(('seq', 'arms', 'nested', 'bound')))
    for step, t in enumerate(trees):
        part.n += 1
        try:
            r = m.eval_expr(irsem.from_neutral(t), {})
            tr = irsem.to_neutral(r)
            expect = ref_subst(t, bind)
            bad = None
            if irsem.width(tr) != irsem.width(t):
                bad = ('width', 'width %d became %d' % (irsem.width(t), irsem.width(tr)))
            else:
                v0, v1 = irsem.ev_np(expect, ids, 0), irsem.ev_np(tr, ids, 0)
                ne = np.nonzero(v0 != v1)[0]
                if len(ne):
                    i = int(ne[0])
                    bad = ('value', 'with p=%#x q=%#x the substitution is %#x, the result %s is %#x' % (int(ids['p'][i]), int(ids['q'][i]), int(v0[i]), irsem.show(tr), int(v1[i])))
        except Exception as ex:
            bad = ('exception:%s' % type(ex).__name__, repr(ex)[:120])
        if bad:
            part.violation('kind=%s family=struct case=%s step=%d' % (bad[0], site, step),
                           'state {%s}, evaluations %s on one machine: step %d (%s): %s' % (
                               ', '.join('%s: %s' % (irsem.show(k_), irsem.show(v_)) for k_, v_ in bind.items()), [irsem.show(x) for x in trees[:step + 1]], step, irsem.show(t), bad[1]),
                           {'struct': label, 'w': w}, 10 * len(trees) + step)
            return
    part.keys.add(core.h64(('struct', label)))


def shard(s, ns, tier, seed):
    ea = EA()
    part = core.Part()
    k = 0
    for i, (label, w, bind, trees) in enumerate(struct_cases()):
        if i % ns == s:
            run_struct(part, label, w, bind, trees, seed, ea)
    for mode, name, w, level in families(tier):
        if mode == 'mem':
            for t, bind, cells, cellbind, lab in mem_cases():
                k += 1
                if k % ns != s:
                    continue
                run_case(part, t, bind, w, seed, ea, 'mem', cells, cellbind, lab)
            continue
        for i, t in enumerate(enum_family(name, w)):
            if (i // 16) % ns != s:
                continue
            try:
                with core.watchdog(60):
                    for bind in bindings_for(t, w, level):
                        if mode == 'const' and any(x not in bind for x in (g.ID('a', w), g.ID('b', w)) if x in subterms(t)):
                            continue
                        run_case(part, t, bind, w, seed, ea, name)
            except core.Timeout:
                part.n += 1
                part.violation('kind=timeout node=%s' % root_label(t), 'eval_expr(%s) under some binding did not finish (60 s for all bindings)' % irsem.show(t),
                               {'tree': t, 'bind': [], 'w': w, 'cells': None, 'cellbind': []}, irsem.size_nodes(t))
    return part


def run(tier, seed):
    t0 = time.time()
    irsem.selfcheck()
    part = core.run_sharded(shard, (tier, seed), nshards=core.NPROC * 4)
    rule = ('case = (expression tree, binding pattern); families: E1 / lifter operators / near-equal twins with every combination of '
            '{absent, 5 boundary constants, 2 symbolic expressions} per identifier; rule-targeted and E2 families with every pair of '
            'boundary constants (all-constant evaluation must fold to the ExprInt the operators define); memory family: same-address cell of '
            '8/16/32 bits bound to constant/symbolic/nothing, read back at 8/16/32/64 bits through constant, symbolic or unbound base. Each '
            'case runs eval_expr on a fresh eval_abs and fresh objects; oracle = reference substitution evaluated by irsem on all 2^16 '
            'valuations (w=8) or the boundary product. Division errors the evaluator documents by raising are skipped.')
    return core.finish('C06', tier, seed, t0, part, rule, exhaustive=True, space={'families': [list(f) for f in families(tier)]},
                       assumptions=['irsem reference semantics', 'memory cells are bound at addresses already in evaluated form (same-address lookups only; overlap is C07)'])


def replay(wt):
    ea = EA()

    def tup(x):
        return tuple(tup(i) for i in x) if isinstance(x, list) else x
    if 'struct' in wt:
        part = core.Part()
        for label, w, bind, trees in struct_cases():
            if label == wt['struct']:
                run_struct(part, label, w, bind, trees, 0, ea)
        if part.viols:
            return True, '\n'.join('%s: %s' % (k, v[1]) for k, v in part.viols.items())
        return False, 'ok'
    t = tup(wt['tree'])
    bind = {tup(k): tup(v) for k, v in wt['bind']}
    cells = [tuple(tup(c)) for c in wt['cells']] if wt.get('cells') is not None else None
    cellbind = {tup(k): tup(v) for k, v in wt.get('cellbind') or []}
    r = judge(t, bind, wt['w'], 0, ea, cells, cellbind or None)
    if r and r[0] != 'skip':
        return True, '%s: %s' % r
    return False, 'ok'
