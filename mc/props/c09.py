"""C09 - Intel and AT&T renderings denote the same instruction and are valid GNU as input.
For every string of S_x86 both decoders accept without superfluous prefix (de-duplicated by decoded prefix):
(i) if canonical: the AT&T rendering fed to asm_att (and the Intel one to asm) yields candidates containing the bytes;
(ii) if "compiler-emitted" (no direct relative branch, no absolute numeric memory operand): GNU as accepts the Intel
rendering in .intel_syntax noprefix mode and both AT&T renderings in AT&T mode, and each assembles to an encoding whose
normal form is that of the original bytes."""
import time, sys
from .. import core, x86space as S, x86ref as R
from . import c01

NEEDS_X86 = True
FORMATS = (('intel', 'intel_syntax noprefix'), ('att', 'att_syntax binutils'), ('att-objdump', 'att_syntax objdump'))


def shard(s, ns, tier, seed):
    ia32 = core.import_x86()
    asm, asm_att = ia32.x86mnemo.asm, ia32.x86mnemo.asm_att
    part = core.Part()
    U = S.units(tier)
    mine = list(range(s, len(U), ns))
    for c0 in range(0, len(mine), c01.CHUNK_UNITS):
        cases = []
        for ui in mine[c0:c0 + c01.CHUNK_UNITS]:
            cases += list(S.cases_of(U[ui], tier))
        with core.quiet_stdout():
            mxs = c01.decode_all(ia32, cases)
        uniq = {}
        for (b, meta), mx in zip(cases, mxs):
            if mx is None or mx[0] == 'EXC':
                part.skip('miasmx rejects or raises')
                continue
            k = b[:mx[0]]
            if k in uniq:
                part.n += 1
            else:
                uniq[k] = (meta, mx)
        keys = list(uniq)
        inte = R.objdump_batch(keys)
        items = []
        for k, od in zip(keys, inte):
            if od is None or od[1] is None or '(bad)' in od[1] or od[1].startswith('.') or od[0] != len(k):
                part.skip('reference rejects or length differs (C01)')
                continue
            try:
                nfo, _ = R.parse_intel(od[1], addr=0, length=od[0], source='od')
            except R.Unparsable:
                part.skip('reference unparsable')
                continue
            if R.has_superfluous_prefix(nfo, uniq[k][0][0], od[1]):
                part.skip('superfluous prefix')
                continue
            items.append((k, nfo))
        if not items:
            continue
        # renderings
        rend = []
        with core.quiet_stdout():
            for k, nfo in items:
                ins = uniq[k][1][3]
                r = []
                for name, fmt in FORMATS:
                    try:
                        r.append(ins.__str__(asm_format=fmt))
                    except Exception:
                        r.append(None)
                rend.append(r)
        att_ref = R.objdump_batch([k for k, _ in items], syntax='att')
        # canonical: GNU as (AT&T) of the reference AT&T text gives the bytes back
        lines, idx = [], []
        for j, ((k, nfo), od) in enumerate(zip(items, att_ref)):
            if od and od[1] and od[0] == len(k) and not any(o[0] == 'rel' for o in nfo.ops) and '<' not in od[1]:
                lines.append(od[1])
                idx.append(j)
        enc = R.gas_batch(lines, 'att')
        canonical = set(j for j, e in zip(idx, enc) if e == items[j][0])
        # (ii) GNU as on miasmX's renderings
        gas_out = {}
        for fi, (name, fmt) in enumerate(FORMATS):
            ls, ix = [], []
            for j, ((k, nfo), r) in enumerate(zip(items, rend)):
                if r[fi] is None:
                    continue
                if any(o[0] == 'rel' for o in nfo.ops):
                    continue        # raw relative displacement
                if any(o[0] == 'mem' and o[3] is None and o[4] is None for o in nfo.ops):
                    continue        # absolute numeric memory operand
                ls.append(r[fi].strip())
                ix.append(j)
            encs = R.gas_batch(ls, 'intel' if name == 'intel' else 'att')
            ods = R.objdump_batch([e if e else b'\x90' for e in encs])
            for j, e, od in zip(ix, encs, ods):
                gas_out[(j, fi)] = (e, od)
        with core.quiet_stdout():
            for j, ((k, nfo), r) in enumerate(zip(items, rend)):
                meta, mx = uniq[k]
                site = S.site(meta)
                wit = {'bytes': k.hex()}
                ok = True
                for fi, (name, fmt) in enumerate(FORMATS):
                    text = r[fi]
                    if text is None:
                        part.skip('rendering raises (C10)')
                        continue
                    if (j, fi) in gas_out:
                        e, od = gas_out[(j, fi)]
                        part.n += 1
                        if e is None:
                            part.violation('%s fmt=%s step=gas-rejects' % (site, name), '%s rendered %r: GNU as rejects it (reference: %s)' % (k.hex(), text.strip(), nfo.text), wit,
                                           size=len(meta[0]) * 1000 + meta[3])
                            ok = False
                            continue
                        try:
                            nfg, _ = R.parse_intel(od[1], addr=0, length=od[0], source='od')
                            f = R.compare_nf(nfg, nfo) if od[0] == len(e) else 'length'
                        except R.Unparsable:
                            f = None
                        if f:
                            part.violation('%s fmt=%s step=gas-encodes-other field=%s' % (site, name, f),
                                           '%s rendered %r: GNU as assembles it to %s = "%s", the original is "%s"' % (k.hex(), text.strip(), e.hex(), od[1], nfo.text), wit,
                                           size=len(meta[0]) * 1000 + meta[3])
                            ok = False
                            continue
                    if j in canonical and name != 'att-objdump':
                        f = asm if name == 'intel' else asm_att
                        part.n += 1
                        try:
                            with core.watchdog(5):
                                c = [bytes(x) for x in f(text)]
                            if k not in c:
                                part.violation('%s fmt=%s step=reparse-not-in-candidates' % (site, name),
                                               '%s rendered %r: %s gives %s' % (k.hex(), text.strip(), 'asm' if name == 'intel' else 'asm_att', [x.hex() for x in c][:5]), wit,
                                               size=len(meta[0]) * 1000 + meta[3])
                                ok = False
                        except Exception as ex:
                            part.violation('%s fmt=%s step=reparse-raises:%s' % (site, name, type(ex).__name__),
                                           '%s rendered %r: re-assembling raises %r' % (k.hex(), text.strip(), str(ex)[:80]), wit, size=len(meta[0]) * 1000 + meta[3])
                            ok = False
                if ok:
                    part.keys.add(core.h64(k))
                    part.outcomes.add(core.h64(nfo.mnemo))
                    if j % 997 == 0 and len(part.samples) < 3:
                        part.samples.append({'bytes': k.hex(), 'intel': r[0], 'att': r[1]})
    return part


def run(tier, seed):
    t0 = time.time()
    core.import_x86()
    part = core.run_sharded(shard, (tier, seed), nshards=core.NPROC * 6)
    rule = ('case = distinct decoded prefix of a string of S_x86 that both decoders accept without superfluous prefix; three renderings '
            '(intel_syntax noprefix, att_syntax binutils, att_syntax objdump). (i) canonical strings (GNU as of objdump\'s AT&T text returns the bytes): '
            'bytes in asm(intel rendering) and in asm_att(att rendering). (ii) strings without direct relative branch and without absolute numeric '
            'memory operand: GNU as accepts each rendering in the matching syntax mode and objdump of its encoding has the normal form of the '
            'original. evaluations count rendering checks; distinct = distinct byte strings with all checks passed')
    return core.finish('C09', tier, seed, t0, part, rule, exhaustive=True, space={'work_units': len(S.units(tier))},
                       assumptions=['GNU as / objdump 2.40 as references for acceptance and denotation'])


def replay(w):
    ia32 = core.import_x86()
    b = bytes.fromhex(w['bytes'])
    with core.quiet_stdout():
        i = ia32.x86mnemo.dis(b)
    out = []
    bad = False
    for name, fmt in FORMATS:
        t = i.__str__(asm_format=fmt)
        e = R.gas_batch([t.strip()], 'intel' if name == 'intel' else 'att')[0]
        out.append('%s: %r -> GNU as: %s' % (name, t.strip(), e.hex() if e else 'rejected'))
        if e is None or e != b:
            bad = True
    return bad, '\n'.join(out)
