"""C05 - expression simplification preserves width and value, and terminates.
Bounded exhaustive enumeration of well-typed trees (E(1), E(2), rule-targeted family) at
widths 1/8/16/32/64; each simplified on FRESH objects by the real expr_simp and compared with
the reference semantics irsem on all 2^16 valuations (w=8) / the boundary product (other w)."""
import time, sys
import numpy as np
from .. import core, irsem, exprgen as g

NEEDS_X86 = False
CHUNK = 2000


def families(tier):
    """(name, width) work units; each is enumerated completely"""
    F = []
    for w in g.WIDTHS:
        F.append(('E1', w))
        F.append(('T', w))
        F.append(('N', w))
    if tier == 'quick':
        F.append(('E2q', 8))
        F.append(('E2q', 32))
    else:
        for w in g.WIDTHS:
            F.append(('E2', w))
    return F


def enum_family(name, w, seed):
    if name == 'E1':
        import random
        r = random.Random(w)        # fixed extra constants: the enumeration does not depend on VERIF_SEED
        return iter(g.E1(w, 'full', (r.getrandbits(w), r.getrandbits(w)) if w > 1 else ()))
    if name == 'T':
        return g.targeted(w)
    if name == 'N':
        return g.near_equal(w)
    if name == 'E2q':
        return g.E2(w, 'min', 'red', pairs='small')
    if name == 'E2':
        return g.E2(w, 'red', 'mid', pairs='full')
    raise ValueError(name)


def const_class(v, w):
    if v == 0:
        return '0'
    if v == 1:
        return '1'
    if v == irsem.mask(w):
        return 'ones'
    if v == w:
        return 'w'
    if v > w:
        return 'big'
    return 'c'


def shape(t):
    """canonical shape: identifiers -> x, constants -> class, structure kept"""
    k = t[0]
    if k == 'int':
        return const_class(t[2], t[1])
    if k == 'id':
        return 'x'
    if k == 'mem':
        return '%s@[%s]' % ('seg:' if t[3] else '', shape(t[1]))
    if k == 'op':
        if len(t[2]) == 1:
            return '(%s %s)' % (t[1], shape(t[2][0]))
        return '(' + (' %s ' % t[1]).join(shape(a) for a in t[2]) + ')'
    if k == 'slice':
        return '%s[s]' % shape(t[1])
    if k == 'compose':
        return '{' + ','.join(shape(a) for a, s, e in t[1]) + '}'
    if k == 'cond':
        return '(%s?%s:%s)' % (shape(t[1]), shape(t[2]), shape(t[3]))
    return '?'


def coarse(t):
    """shape with every constant -> c (used for exceptions / time-outs: the site, not the value)"""
    import re
    return re.sub(r'\b(0|1|ones|w|big)\b', 'c', shape(t))


def children(t):
    k = t[0]
    if k == 'mem':
        return [t[1]]
    if k == 'op':
        return list(t[2])
    if k == 'slice':
        return [t[1]]
    if k == 'compose':
        return [a for a, s, e in t[1]]
    if k == 'cond':
        return [t[1], t[2], t[3]]
    return []


_lanes = {}


def lanes(w, seed):
    if (w, seed) not in _lanes:
        a, b = g.valuation_lanes(w, seed)
        _lanes[(w, seed)] = {'a': a, 'b': b, 'ds': np.full(len(a), 0x23, dtype=np.uint64), 'fs': np.full(len(a), 0x3b, dtype=np.uint64)}
    return _lanes[(w, seed)]


def base_width(t):
    k = t[0]
    if k == 'id':
        return t[2] if t[1] in ('a', 'b') else None
    for c in children(t):
        w = base_width(c)
        if w:
            return w
    return None


def judge(t, seed, H=None):
    """None if the property holds on t, else (kind, detail).  Runs the real simplifier on fresh objects."""
    if H is None:
        import miasmx.expression.expression_helper as H
    e = irsem.from_neutral(t)
    try:
        with core.watchdog(5):
            s = H.expr_simp(e)
    except core.Timeout:
        return ('timeout', 'expr_simp did not finish in 5 s')
    except RecursionError:
        return ('recursion', 'RecursionError')
    except Exception as ex:
        return ('exception:%s' % type(ex).__name__, repr(ex)[:200])
    try:
        if irsem.to_neutral(e) != t:
            return ('input-mutated', 'the argument of expr_simp was modified in place: now %s' % irsem.show(irsem.to_neutral(e)))
        ts = irsem.to_neutral(s)
        w0, w1 = irsem.width(t), irsem.width(ts)
    except Exception as ex:
        return ('result-malformed', repr(ex)[:200])
    if w0 != w1:
        return ('width', 'width %d became %d: %s' % (w0, w1, irsem.show(ts)))
    bw = base_width(t) or 8
    for salt in (0, 1):
        ids = lanes(bw, seed)
        try:
            v0 = irsem.ev_np(t, ids, salt)
            v1 = irsem.ev_np(ts, ids, salt)
        except irsem.Unsupported as ex:
            return None
        ne = np.nonzero(v0 != v1)[0]
        if len(ne):
            i = int(ne[0])
            return ('value', 'simplified to %s; a=%#x b=%#x: original %#x, simplified %#x (%d of %d valuations differ)' % (
                irsem.show(ts), int(ids['a'][i]), int(ids['b'][i]), int(v0[i]), int(v1[i]), len(ne), len(v0)))
        if 'mem' not in repr(t):
            break
    return None


def minimise(t, seed, H, kind):
    """delta-reduce to the smallest failing sub-tree (same failure kind)"""
    changed = True
    while changed:
        changed = False
        for c in children(t):
            try:
                irsem.width(c, True)
            except Exception:
                continue
            r = judge(c, seed, H)
            if r is not None and r[0] == kind:
                t = c
                changed = True
                break
    return t


def shard(s, ns, tier, seed):
    irsem.SEGAWARE = True
    import miasmx.expression.expression_helper as H
    part = core.Part()
    idx = 0
    for name, w in families(tier):
        for i, t in enumerate(enum_family(name, w, seed)):
            if (i // 64) % ns != s:
                continue
            r = judge(t, seed, H)
            if r is None:
                part.ok(core.h64(repr(t)), sample=irsem.show(t) if i % 9973 == (seed % 9973) else None)
            else:
                part.n += 1
                kind = r[0]
                tm = minimise(t, seed, H, kind)
                rm = judge(tm, seed, H) or r
                sig = 'kind=%s shape=%s' % (kind, shape(tm) if kind in ('value', 'width') else coarse(tm))
                part.violation(sig, 'expr_simp(%s): %s' % (irsem.show(tm), rm[1]), {'tree': tm, 'from': irsem.show(t)},
                               size=irsem.size_nodes(tm) * 1000 + len(repr(tm)) % 1000)
        part.counters['family %s/%d' % (name, w)] += 0
    return part


def run(tier, seed):
    t0 = time.time()
    irsem.SEGAWARE = True
    irsem.selfcheck()
    part = core.run_sharded(shard, (tier, seed), nshards=core.NPROC * 4)
    rule = ('case = one well-typed expression tree over identifiers a,b of base width w; families: E1 = every operator over '
            'every leaf tuple (leaves a,b + 10 boundary constants + 2 seed constants), T = rule-targeted left-hand sides '
            '(mask/shift, (A|k)==0, constant shifts for all pairs, subtraction, rotate merging, slice-of-slice/compose/int/mem, '
            'compose tilings, conditionals, memory), E2 = every root operator over one E1 child + leaves in every position and '
            'over pairs of non-leaf children; widths 1/8/16/32/64 (quick: E2 reduced alphabet at w=8,32). Each tree is simplified '
            'by the real expr_simp on fresh objects and both sides are evaluated by irsem on all 2^16 valuations (w=8), all 4 (w=1), '
            'or the full product of a ~35-value boundary set (other w), under two memories. non-trivial = reached the value '
            'comparison; distinct = distinct trees')
    return core.finish('C05', tier, seed, t0, part, rule, exhaustive=True,
                       space={'families': [list(f) for f in families(tier)]},
                       assumptions=['irsem (mc/irsem.py) is the reference semantics; cross-checked against big-int arithmetic at start-up',
                                    'a segment selector on ExprMem selects a different address space: dropping or changing it changes the cell',
                                    'valuations are exhaustive only at width 8 and 1'])


def replay(w):
    irsem.SEGAWARE = True
    def tup(x):
        return tuple(tup(i) for i in x) if isinstance(x, list) else x
    t = tup(w['tree'])
    r = judge(t, 0)
    if r:
        return True, 'expr_simp(%s): %s: %s' % (irsem.show(t), r[0], r[1])
    return False, 'ok: %s' % irsem.show(t)
