"""C12 - API results depend only on explicit inputs (no hidden state between calls).
Explicit-state exploration of API-call histories over the REAL library: every history up to depth 2 (thorough 3)
over an alphabet of calls, each executed in a forked child of a pristine image; after the history every probe is
executed in its own grand-child and compared with the probe's result in the pristine image (the pure-function
model).  Hidden-state fingerprints (shared tables, memo flags on module-level expressions) give the state graph.
Inputs must stay structurally equal.  Finite set of parser-table cache configurations, each in a fresh process."""
import os, sys, time, json, hashlib, itertools, subprocess, tempfile, shutil, pickle, struct
from .. import core
from ..asmcorpus import CORPUS_INTEL, CORPUS_ATT

CORPUS_ALL = CORPUS_INTEL + CORPUS_ATT
NEEDS_X86 = True


# ---------------------------------------------------------------------------
# the call alphabet: each call returns a canonical, comparable rendering of its result

class Ctx(object):
    pass


def make_ctx():
    c = Ctx()
    c.ia32 = core.import_x86()
    import miasmx.arch.ia32_sem as sem
    import miasmx.expression.expression as X
    import miasmx.expression.expression_helper as H
    import miasmx.expression.expression_eval_abstract as EA
    from miasmx.tools import emul_helper
    import logging
    c.sem, c.X, c.H, c.EA, c.eh = sem, X, H, EA, emul_helper
    c.log = logging.getLogger('verif_quiet')
    c.log.setLevel(100)
    c.log.propagate = False
    c.objs = {}
    return c


def hexs(l):
    return [bytes(x).hex() for x in l]


def render_instr(i):
    if i is None:
        return None
    return (i.l, str(i), i.__str__(asm_format='att_syntax binutils'))


def machine(c, name):
    """machines persist within one process (they are explicit state); created on first use"""
    if name not in c.objs:
        X, sem = c.X, c.sem
        if name == 'A':
            st = {sem.eax: X.ExprInt32(5), sem.ebx: X.ExprInt32(7)}
            c.objs[name] = c.EA.eval_abs(st, log=c.log)
        elif name == 'B':
            c.objs[name] = c.EA.eval_abs({}, log=c.log)
        elif name == 'M':
            c.objs[name] = c.eh.x86_machine()
        elif name == 'C':
            st = {sem.eax: X.ExprInt32(5), X.ExprMem(X.ExprInt32(0x404000), 32): X.ExprInt32(0x1234)}
            c.objs[name] = c.EA.eval_abs(st, log=c.log)
    return c.objs[name]


def dump(m):
    return (m.dump_id(), m.dump_mem())


def lift(c, hx):
    i = c.ia32.x86mnemo.dis(bytes.fromhex(hx))
    return [str(e) for e in c.eh.get_instr_expr(i, c.X.ExprInt32(len(hx) // 2), [])]


def lift_w(c, hx):
    """lift with every constant and identifier width visible (str() hides the width of constants)"""
    from .. import irsem
    i = c.ia32.x86mnemo.dis(bytes.fromhex(hx))
    lst = c.eh.get_instr_expr(i, c.X.ExprInt32(len(hx) // 2), [])
    return [repr(irsem.to_neutral(e)) for e in lst]


def shared_expr(c, key):
    """expressions built ONCE per process on the module-level register singletons and re-used by later calls"""
    if key not in c.objs:
        X, sem = c.X, c.sem
        if key == 'e_add0':
            c.objs[key] = sem.eax + X.ExprInt32(0)
        elif key == 'e_compose':
            c.objs[key] = X.ExprCompose([(sem.eax[0:16], 0, 16), (sem.eax[16:32], 16, 32)])
        elif key == 'e_xor':
            c.objs[key] = (sem.eax ^ sem.ebx) ^ sem.eax
        elif key == 'e_sum':
            c.objs[key] = sem.eax + sem.ebx
        elif key == 'e_mem':
            c.objs[key] = X.ExprMem(X.ExprInt32(0x404000), 32)
        elif key == 'e_memreg':
            c.objs[key] = X.ExprMem(sem.eax, 32)
        elif key == 'lift_movax':
            i = c.ia32.x86mnemo.dis(bytes.fromhex('6689c0'))
            c.objs[key] = c.eh.get_instr_expr(i, X.ExprInt32(3), [])
        elif key == 'i_jmp':
            c.objs[key] = c.ia32.x86mnemo.dis(bytes.fromhex('eb05'))
    return c.objs[key]


def held(c, hx):
    """an instruction object decoded ONCE per process and kept by the caller; every later call observes the same object:
    (length, Intel text, AT&T text, prefix list, lifted semantics)"""
    key = 'held:' + hx
    if key not in c.objs:
        c.objs[key] = c.ia32.x86mnemo.dis(bytes.fromhex(hx))
    i = c.objs[key]
    try:
        sem = [str(e) for e in c.eh.get_instr_expr(i, c.X.ExprInt32(len(hx) // 2), [])]
    except Exception as ex:
        sem = 'EXC:%s' % type(ex).__name__
    return (i.l, str(i), i.__str__(asm_format='att_syntax binutils'), [int(x) for x in i.prefix], sem)


def emul(c, hexes):
    m = c.eh.x86_machine()
    ins = [c.ia32.x86mnemo.dis(bytes.fromhex(h)) for h in hexes]
    r = c.eh.emul_lines(m, ins)
    return (str(r), dump(m))


CALLS = [
    ('dis 89c3', lambda c: render_instr(c.ia32.x86mnemo.dis(bytes.fromhex('89c3')))),
    ('dis d3e0 (r_cl row)', lambda c: render_instr(c.ia32.x86mnemo.dis(bytes.fromhex('d3e0')))),
    ('dis ec (r_dx row)', lambda c: render_instr(c.ia32.x86mnemo.dis(bytes.fromhex('ec')))),
    ('dis 0f6fc1', lambda c: render_instr(c.ia32.x86mnemo.dis(bytes.fromhex('0f6fc1')))),
    ('dis 658b00 (segment, no disp)', lambda c: render_instr(c.ia32.x86mnemo.dis(bytes.fromhex('658b00')))),
    ('dis 8b00', lambda c: render_instr(c.ia32.x86mnemo.dis(bytes.fromhex('8b00')))),
    ('dis 8d00 (lea)', lambda c: render_instr(c.ia32.x86mnemo.dis(bytes.fromhex('8d00')))),
    ('dis fec0 (same ModRM as held ffc0)', lambda c: render_instr(c.ia32.x86mnemo.dis(bytes.fromhex('fec0')))),
    ('dis 0f58c1 (same row as held f20f58c1)', lambda c: render_instr(c.ia32.x86mnemo.dis(bytes.fromhex('0f58c1')))),
    ('dis 668b4510 (same ModRM as held 8b4508)', lambda c: render_instr(c.ia32.x86mnemo.dis(bytes.fromhex('668b4510')))),
    ('held ffc0 (inc eax, register ModRM)', lambda c: held(c, 'ffc0')),
    ('held f20f58c1 (addsd, mandatory prefix)', lambda c: held(c, 'f20f58c1')),
    ('held 8b4508 (mov eax,[ebp+8])', lambda c: held(c, '8b4508')),
    ('held f3a5 (rep movsd)', lambda c: held(c, 'f3a5')),
    ('asm mov eax, ebx', lambda c: hexs(c.ia32.x86mnemo.asm('mov eax, ebx'))),
    ('asm shl eax, cl', lambda c: hexs(c.ia32.x86mnemo.asm('shl eax, cl'))),
    ('asm add DWORD PTR [ebp-8], 3', lambda c: hexs(c.ia32.x86mnemo.asm('add DWORD PTR [ebp-8], 3'))),
    ('asm bogus eax (raises)', lambda c: hexs(c.ia32.x86mnemo.asm('bogus eax'))),
    ('asm mov eax, ] (raises)', lambda c: hexs(c.ia32.x86mnemo.asm('mov eax, ]'))),
    ('asm_att movl %eax, 4(%esp)', lambda c: hexs(c.ia32.x86mnemo.asm_att('movl %eax, 4(%esp)'))),
    ('asm_att in (%dx), %al', lambda c: hexs(c.ia32.x86mnemo.asm_att('in (%dx), %al'))),
    ('lift add eax,ebx', lambda c: lift(c, '01d8')),
    ('lift push eax', lambda c: lift(c, '50')),
    ('lift pushad (raises)', lambda c: lift(c, '6660')),
    ('lift 268b00 (es: override)', lambda c: lift(c, '268b00')),
    ('lift a5 (movsd through es:edi)', lambda c: lift(c, 'a5')),
    ('lift mov ah,ah', lambda c: lift(c, '88e4')),
    ('simp shared eax+0', lambda c: str(c.H.expr_simp(shared_expr(c, 'e_add0')))),
    ('simp shared compose of slices', lambda c: str(c.H.expr_simp(shared_expr(c, 'e_compose')))),
    ('simp shared (eax^ebx)^eax', lambda c: str(c.H.expr_simp(shared_expr(c, 'e_xor')))),
    ('A.eval shared eax+ebx', lambda c: str(machine(c, 'A').eval_expr(shared_expr(c, 'e_sum'), {}))),
    ('B.eval eax (absent)', lambda c: str(machine(c, 'B').eval_expr(c.sem.eax, {}))),
    ('A.eval eax (bound)', lambda c: str(machine(c, 'A').eval_expr(c.sem.eax, {}))),
    ('B.eval shared @32[0x404000] (unknown)', lambda c: str(machine(c, 'B').eval_expr(shared_expr(c, 'e_mem'), {}))),
    ('C.eval shared @32[0x404000] (bound)', lambda c: str(machine(c, 'C').eval_expr(shared_expr(c, 'e_mem'), {}))),
    ('B.eval shared @32[eax]', lambda c: str(machine(c, 'B').eval_expr(shared_expr(c, 'e_memreg'), {}))),
    ('eval shared lift of mov ax,ax on fresh machine', lambda c: (lambda m: (m.eval_instr(shared_expr(c, 'lift_movax')), dump(m))[1])(c.eh.x86_machine())),
    ('emul add eax,ebx', lambda c: emul(c, ['01d8'])),
    ('emul mov ecx,2; rep stosb', lambda c: emul(c, ['b902000000', 'f3aa'])),
    ('emul store/load', lambda c: emul(c, ['89442404', '8b4c2406'])),
    ('A.eval_instr eax=eax+1 (documented state change)', lambda c: (machine(c, 'A').eval_instr([c.X.ExprAff(c.sem.eax, c.sem.eax + c.X.ExprInt32(1))]), None)[1]),
    ('setdstflow on decoded jmp (documented output parameter)', lambda c: (shared_expr(c, 'i_jmp').setdstflow([c.X.ExprId('lbl')]), None)[1]),
]
# Wide alphabet: used as histories of length 1 and as probes after them (all ordered pairs), not in the longer histories.
# Lifts of instructions whose lifters take defaults / optional arguments / size-dependent paths, under every prefix variant,
# and assembler lines that are prefixes, fragments or rejected input next to the lines they could leak into.
NARROW = len(CALLS)
WIDE_LIFTS = ['c3', '66c3', 'c20800', '66c20800', 'cb', '66cb', 'ca0400', 'c9', '66c9', 'c8080000', '6a05', '666a05', '6805000000', '58', '6658', '8f00', '668f00',
              'e805000000', 'ff10', 'eb05', '7405', 'e2fe', '67e2fe', 'e305', '67e305', 'a4', 'f3a4', '66a5', '67a5', 'aa', 'f3ab', 'ae', 'f2ae', 'a6', 'f3a6', 'ac',
              'd7', '67d7', '0fa318', '660fa318', '0fba2005', 'c1e005', 'd3e0', 'c0e000', '0fa4d805', '0fa5d8', 'f7f3', 'f6f3', '99', '6699', '98', '6698', '9c', '9d',
              'cd80', 'cc', 'c406', '66c406', '8cc0', '8ec0', '06', '07', '0fa2', '0f31', 'd9e8', 'dec1', '0f6fc1', '660f6fc1', 'f30f6fc1']
WIDE_ASM = ['rep', 'repz', 'repe', 'repnz', 'lock', '', 'ret', 'rep movsd', 'repnz scasb', 'lock inc DWORD PTR [eax]', 'movsd', 'nop', 'push', 'mov eax,',
            'mov ax, -1', 'mov eax, DWORD PTR fs:[eax]', 'fs', 'notrack jmp eax', 'notrack', 'jmp eax', 'mov eax, ebx']
WIDE_ATT = ['rep', 'lock', 'ret', 'rep movsl', 'lock incl (%eax)', 'movsl', 'fnstsw %ax', 'fnstsw', 'movl %fs:(%eax), %eax', 'movl %eax, %ebx']
for _hx in WIDE_LIFTS:
    CALLS.append(('wlift %s' % _hx, (lambda c, _hx=_hx: lift_w(c, _hx))))
for _l in WIDE_ASM:
    CALLS.append(('wasm %r' % _l, (lambda c, _l=_l: hexs(c.ia32.x86mnemo.asm(_l)))))
for _l in WIDE_ATT:
    CALLS.append(('wasm_att %r' % _l, (lambda c, _l=_l: hexs(c.ia32.x86mnemo.asm_att(_l)))))

# calls whose own result legitimately depends on the explicit machine state they mutate: never used as probes
NOT_PROBES = {'A.eval_instr eax=eax+1 (documented state change)', 'setdstflow on decoded jmp (documented output parameter)',
              'A.eval eax (bound)', 'A.eval shared eax+ebx'}


# depth-3 histories (thorough) are built from the alphabet without these near-duplicates of other calls; every call stays a probe
DEPTH3_DROP = {'dis 0f6fc1', 'dis 8d00 (lea)', 'dis ec (r_dx row)', 'asm shl eax, cl', 'asm add DWORD PTR [ebp-8], 3', 'asm mov eax, ] (raises)',
               'asm_att in (%dx), %al', 'lift push eax', 'lift mov ah,ah', 'simp shared compose of slices', 'C.eval shared @32[0x404000] (bound)',
               'emul mov ecx,2; rep stosb', 'dis 668b4510 (same ModRM as held 8b4508)', 'held f3a5 (rep movsd)', 'dis 0f58c1 (same row as held f20f58c1)'}


def run_call(c, idx):
    name, f = CALLS[idx]
    try:
        with core.quiet_stdout():
            r = f(c)
        return json.dumps(core.jsonable(r), sort_keys=True)
    except Exception as ex:
        return 'EXC:%s' % type(ex).__name__


# ---------------------------------------------------------------------------
def canon(o, depth=0, seen=None):
    """canonical nested rendering of tables / objects (cycle safe)"""
    if seen is None:
        seen = set()
    if isinstance(o, (int, str, bytes, float, bool)) or o is None:
        return o
    if id(o) in seen or depth > 12:
        return '<cycle>'
    t = type(o).__name__
    if t in ('uint1', 'uint8', 'uint16', 'uint32', 'uint64', 'int8', 'int16', 'int32', 'int64'):
        return (t, int(o))
    seen = seen | {id(o)}
    if isinstance(o, dict):
        return ('dict', tuple(sorted(((repr(canon(k, depth + 1, seen)), canon(v, depth + 1, seen)) for k, v in o.items()), key=lambda kv: kv[0])))
    if isinstance(o, (list, tuple)):
        return (t, tuple(canon(x, depth + 1, seen) for x in o))
    if isinstance(o, (set, frozenset)):
        return ('set', tuple(sorted(repr(canon(x, depth + 1, seen)) for x in o)))
    if callable(o) or t in ('module', 'type', 'function', 'builtin_function_or_method', 'method'):
        return '<%s>' % t
    d = getattr(o, '__dict__', None)
    if d is not None:
        return (t, canon(d, depth + 1, seen))
    sl = getattr(type(o), '__slots__', None)
    if sl:
        return (t, tuple((s, canon(getattr(o, s, None), depth + 1, seen)) for s in sl))
    return '<%s>' % t


_PRIM = (int, str, bytes, float, bool, type(None))
_INTS = ('uint1', 'uint8', 'uint16', 'uint32', 'uint64', 'int8', 'int16', 'int32', 'int64')


def digest(o, memo, stack):
    """content digest of an object graph: every distinct object is walked once (memo by identity, valid for the duration
    of one fingerprint), cycles are cut on the current path; dict/set order does not matter"""
    if isinstance(o, _PRIM):
        return hashlib.blake2b(repr(o).encode('utf8', 'replace'), digest_size=8, person=b'p').digest()
    i = id(o)
    if i in memo:
        return memo[i]
    if i in stack or len(stack) > 24:
        return b'<cycle>!'
    t = type(o).__name__
    h = hashlib.blake2b(digest_size=8)
    h.update(t.encode())
    if t in _INTS:
        h.update(repr(int(o)).encode())
    elif callable(o) or t in ('module', 'type', 'function', 'builtin_function_or_method', 'method'):
        pass
    else:
        stack.add(i)
        if isinstance(o, dict):
            for kv in sorted(digest(k, memo, stack) + digest(v, memo, stack) for k, v in o.items()):
                h.update(kv)
        elif isinstance(o, (list, tuple)):
            for x in o:
                h.update(digest(x, memo, stack))
        elif isinstance(o, (set, frozenset)):
            for d in sorted(digest(x, memo, stack) for x in o):
                h.update(d)
        else:
            d = getattr(o, '__dict__', None)
            if d is not None:
                h.update(digest(d, memo, stack))
            else:
                for sl in getattr(type(o), '__slots__', None) or ():
                    h.update(sl.encode())
                    h.update(digest(getattr(o, sl, None), memo, stack))
        stack.discard(i)
    r = h.digest()
    memo[i] = r
    return r


def fingerprint(c):
    h = hashlib.blake2b(digest_size=12)
    # shared instruction / register tables
    memo = {}
    h.update(digest(c.ia32.x86mndb.__dict__, memo, set()))
    afs = c.ia32.x86_afs
    h.update(digest({k: v for k, v in vars(afs).items() if not k.startswith('__')}, memo, set()))
    # memo flags on module-level expression singletons
    flags = []
    for n, v in sorted(vars(c.sem).items()):
        if isinstance(v, c.X.Expr):
            flags.append((n, bool(getattr(v, 'is_eval', False)), bool(getattr(v, 'simp', False)), bool(getattr(v, 'is_term', False)), str(v)))
    h.update(repr(flags).encode())
    h.update(repr(sorted(sys.path)).encode())
    return h.hexdigest()


def child_eval(c, hist, probes):
    """runs in a forked child: history, fingerprint, then each probe in its own grand-child"""
    outs = []
    for idx in hist:
        outs.append(run_call(c, idx))
    fp = fingerprint(c)
    res = {}
    for p in probes:
        r, w = os.pipe()
        pid = os.fork()
        if pid == 0:
            os.close(r)
            try:
                out = run_call(c, p)
            except BaseException:
                out = 'EXC:child'
            os.write(w, out.encode('utf8', 'replace')[:60000])
            os._exit(0)
        os.close(w)
        buf = b''
        while True:
            chunk = os.read(r, 65536)
            if not chunk:
                break
            buf += chunk
        os.close(r)
        os.waitpid(pid, 0)
        res[p] = buf.decode('utf8', 'replace')
    return outs, fp, res


def fork_history(c, hist, probes):
    r, w = os.pipe()
    pid = os.fork()
    if pid == 0:
        os.close(r)
        try:
            data = pickle.dumps(child_eval(c, hist, probes))
        except BaseException as ex:
            data = pickle.dumps((['EXC:harness %r' % ex], 'error', {}))
        with os.fdopen(w, 'wb') as f:
            f.write(data)
        os._exit(0)
    os.close(w)
    with os.fdopen(r, 'rb') as f:
        data = f.read()
    os.waitpid(pid, 0)
    return pickle.loads(data)


def kind_of(name):
    return name.split(' ')[0].split('.')[-1]


def shard(s, ns, tier, seed):
    c = make_ctx()
    part = core.Part()
    probes_all = [i for i, (n, f) in enumerate(CALLS) if n not in NOT_PROBES]
    probes_narrow = [i for i in probes_all if i < NARROW]
    base_outs, base_fp, base = fork_history(c, (), probes_all)
    depth = 2 if tier == 'quick' else 3
    part.fps = {(): base_fp}
    part.fails = []
    k = 0
    deep = [i for i, (n, f) in enumerate(CALLS) if n not in DEPTH3_DROP and i < NARROW]
    for d in range(1, depth + 1):
        for hist in itertools.product(range(len(CALLS)) if d == 1 else range(NARROW) if d == 2 else deep, repeat=d):
            k += 1
            if k % ns != s:
                continue
            # histories of one call are probed by the whole (wide) alphabet, longer ones by the narrow alphabet
            probes = probes_all if d == 1 else probes_narrow
            outs, fp, res = fork_history(c, hist, probes)
            part.fps[hist] = fp
            part.transitions += 1
            part.traces += 1
            for p in probes:
                part.n += 1
                if res.get(p) == base[p]:
                    part.keys.add(core.h64((hist, p)))
                    if len(part.samples) < 2 and len(hist) > 1:
                        part.samples.append({'history': [CALLS[i][0] for i in hist], 'probe': CALLS[p][0], 'result': res[p][:120], 'fingerprint': fp})
                else:
                    part.fails.append((hist, p, base[p][:150], (res.get(p) or '')[:150]))
            # a call repeated inside the history must repeat its own result (same explicit inputs), unless it is a documented state change
            first = {}
            for pos, (i, o) in enumerate(zip(hist, outs)):
                if CALLS[i][0] in NOT_PROBES:
                    continue
                if i in first and first[i] != o and not any(CALLS[j][0] in NOT_PROBES for j in hist[:pos]):
                    # named by the calls between the two occurrences (the call's own first occurrence is not the cause)
                    between = [j for j in hist[:pos] if j != i]
                    part.violation('probe=[%s] after=[%s]' % (CALLS[i][0], ' ; '.join(CALLS[j][0] for j in between)),
                                   'call %r returned %s and later %s within one history %s' % (CALLS[i][0], first[i][:100], o[:100], [CALLS[j][0] for j in hist[:pos]]),
                                   {'history': list(between), 'probe': i}, size=pos)
                first.setdefault(i, o)
    return part


# ---------------------------------------------------------------------------
# input immutability

def shard_inputs(s, ns, tier, seed):
    from .. import irsem, exprgen as g
    c = make_ctx()
    X, H = c.X, c.H
    part = core.Part()
    k = 0
    trees = []
    for w in (8, 32):
        trees += g.E1(w, 'mid') + list(g.targeted(w))[::7] + g.exemplars(w)
    for t in trees:
        k += 1
        if k % ns != s:
            continue
        try:
            irsem.width(t, True)
        except Exception:
            continue
        for api in ('expr_simp', 'eval_expr', 'copy', 'replace_expr', 'canonize', 'get_r'):
            e = irsem.from_neutral(t)
            before = irsem.to_neutral(e)
            try:
                with core.watchdog(5):
                    if api == 'expr_simp':
                        H.expr_simp(e)
                        H.expr_simp(e)
                    elif api == 'eval_expr':
                        m = c.EA.eval_abs({X.ExprId('a', g._w(('id', 'a', w))): X.ExprInt(X.tab_uintsize[w](3))}, log=c.log)
                        m.eval_expr(e, {})
                    elif api == 'copy':
                        e.copy()
                    elif api == 'replace_expr':
                        e.replace_expr({X.ExprId('a', w): X.ExprId('z', w)})
                    elif api == 'canonize':
                        e.canonize()
                    else:
                        e.get_r(mem_read=True)
            except Exception:
                part.skip('api raises (other properties)')
                continue
            after = irsem.to_neutral(e)
            part.n += 1
            if after == before:
                part.keys.add(core.h64((api, repr(t))))
            else:
                part.violation('input-mutated api=%s root=%s' % (api, t[0] if t[0] != 'op' else 'op'),
                               '%s(%s) modified its argument: now %s' % (api, irsem.show(before), irsem.show(after)), {'tree': t, 'api': api},
                               size=irsem.size_nodes(t))
    # instruction objects and machines passed for reading
    if s == 0:
        ia32 = c.ia32
        for hx in ('89c3', 'd3e0', 'ec', '658b00', '8b442404', '01d8', 'eb05', '0f6fc1', 'a4', '6a80'):
            i = ia32.x86mnemo.dis(bytes.fromhex(hx))
            snap = repr(canon(i))
            try:
                with core.quiet_stdout():
                    str(i)
                    i.__str__(asm_format='att_syntax binutils')
                    c.eh.get_instr_expr(i, X.ExprInt32(len(hx) // 2), [])
                    ia32.x86mnemo.asm(str(i))
            except Exception:
                pass
            after = canon(i)
            part.n += 1
            # arg_expr is a documented cache slot filled by get_instr_expr
            def strip(cn):
                return repr(cn).replace("('arg_expr'", "('_")
            i2 = ia32.x86mnemo.dis(bytes.fromhex(hx))
            if repr(canon([i.l, i.b, i.arg, i.prefix, i.opmode, i.admode, str(i)])) != repr(canon([i2.l, i2.b, i2.arg, i2.prefix, i2.opmode, i2.admode, str(i2)])):
                part.violation('input-mutated api=render/lift/asm instr=%s' % hx, 'instruction object %s changed after rendering/lifting/re-assembling it' % hx, {'hex': hx})
            else:
                part.keys.add(core.h64(('instr', hx)))
        # the address argument of the lifter is passed for reading: it must come back unchanged, and a lift that reuses the
        # same address object after other lifts must equal the lift with a fresh one
        LIFT_HEX = ['01d8', '7402', '0f8f02000000', 'e2fe', 'e302', 'e805000000', 'ffd0', 'c3', 'c20800', 'eb05', 'e905000000', 'f3a4', 'cd80',
                    '667f02', '660f8f0200', '66e2fe', '66e302', '66e80500', '66e90500', '66c3', '67e302', '9a112233445566', 'ff1500104000']
        for addr in (0x1005, 0x401005, 0xfffffff0):
            shared_eip = X.ExprInt32(addr)
            for hx in LIFT_HEX:
                try:
                    with core.quiet_stdout():
                        i = ia32.x86mnemo.dis(bytes.fromhex(hx))
                        fresh = [str(e) for e in c.eh.get_instr_expr(ia32.x86mnemo.dis(bytes.fromhex(hx)), X.ExprInt32(addr), [])]
                        again = [str(e) for e in c.eh.get_instr_expr(i, shared_eip, [])]
                except Exception:
                    part.skip('lifting raises (C11)')
                    continue
                part.n += 1
                now = (type(shared_eip.arg).__name__, int(shared_eip.arg))
                if now != ('uint32', addr):
                    part.violation('input-mutated api=get_instr_expr arg=my_eip instr=%s' % hx,
                                   'lifting %s changed the address object it was given: ExprInt32(%#x) is now %s(%#x)' % (hx, addr, now[0], now[1]), {'hex': hx, 'addr': addr})
                    shared_eip = X.ExprInt32(addr)
                elif again != fresh:
                    part.violation('probe=[lift %s] after=[lifts sharing the address object]' % hx,
                                   'lift of %s with a reused address object gives %s, with a fresh one %s' % (hx, again[:3], fresh[:3]), {'hex': hx, 'addr': addr})
                else:
                    part.keys.add(core.h64(('lift-eip', hx, addr)))
        m = c.eh.x86_machine()
        before = dump(m)
        m.eval_expr(c.sem.eax + c.sem.ebx, {})
        m.eval_expr(X.ExprMem(c.sem.esp, 32), {})
        part.n += 1
        if dump(m) != before:
            part.violation('input-mutated api=eval_expr machine', 'eval_expr changed the machine state it was given for reading', {'machine': True})
        else:
            part.keys.add(core.h64('machine'))
    return part


# ---------------------------------------------------------------------------
# reads do not change a machine: on ONE machine, a sequence of loads (pure) and stores (documented state changes) must
# leave the same answers as the same sequence with the loads removed

MOPS = [('load @32[esp]', (0, 32), True), ('load @16[esp+2]', (2, 16), True), ('load @8[esp+1]', (1, 8), True), ('load @32[esp+2]', (2, 32), True),
        ('store @16[esp+2]', '66c74424023412', False), ('store @32[esp]', 'c7042478563412', False), ('store @8[esp+3]', 'c6442403ab', False),
        ('store @32[esi]', '8906', False)]


def machine_run(c, seq):
    m = c.eh.x86_machine()
    outs = []
    with core.quiet_stdout():
        for i in seq:
            try:
                if MOPS[i][2]:          # a read through the evaluation API: no documented effect on the machine
                    off, w = MOPS[i][1]
                    m.eval_expr(c.X.ExprMem(c.sem.esp + c.X.ExprInt32(off) if off else c.sem.esp, w), {})
                else:
                    c.eh.emul_lines(m, [c.ia32.x86mnemo.dis(bytes.fromhex(MOPS[i][1]))])
                outs.append('ok')
            except Exception as ex:
                outs.append('EXC:%s' % type(ex).__name__)
        probes = []
        for ad, w in ((c.sem.esp, 32), (c.sem.esp + c.X.ExprInt32(2), 16), (c.sem.esp + c.X.ExprInt32(1), 8), (c.sem.esi, 32), (c.sem.esp, 16)):
            try:
                probes.append(str(m.eval_expr(c.X.ExprMem(ad, w), {})))
            except Exception as ex:
                probes.append('EXC:%s' % type(ex).__name__)
    return outs, probes, dump(m)


def shard_machine_reads(s, ns, tier, seed):
    c = make_ctx()
    part = core.Part()
    depth = 3 if tier == 'quick' else 4
    k = 0
    for d in range(2, depth + 1):
        for seq in itertools.product(range(len(MOPS)), repeat=d):
            if not any(MOPS[i][2] for i in seq) or not any(not MOPS[i][2] for i in seq):
                continue
            k += 1
            if k % ns != s:
                continue
            stores_only = tuple(i for i in seq if not MOPS[i][2])
            o1, p1, d1 = core.isolated(machine_run, c, seq)
            o2, p2, d2 = core.isolated(machine_run, c, stores_only)
            part.n += 1
            part.transitions += len(seq)
            part.traces += 1
            if (p1, [d for d in d1[1]]) == (p2, [d for d in d2[1]]) or any(o.startswith('EXC') for o in o1 + o2):
                part.keys.add(core.h64(('mr', seq)))
            else:
                loads = sorted(set(MOPS[i][0] for i in seq if MOPS[i][2]))
                part.violation('machine-read-purity loads=[%s] stores=[%s]' % (' ; '.join(loads), ' ; '.join(MOPS[i][0] for i in stores_only)),
                               'after %s the machine answers %s (memory %s); with the loads left out it answers %s (memory %s)' % (
                                   [MOPS[i][0] for i in seq], p1, d1[1], p2, d2[1]), {'mseq': list(seq)}, size=len(seq))
    return part


# ---------------------------------------------------------------------------
# assembler call pairs: every ordered pair (L1, L2) of a line alphabet in which mnemonics that treat an operand
# differently share the SAME operand text (memo / shared-dict leaks between parses)

def pair_lines():
    ops = ['QWORD PTR [esi]', 'BYTE PTR [esi+8]', 'WORD PTR 0', 'DWORD PTR [ebx]', 'WORD PTR [eax]', '[esi]', 'eax', 'ax', '4', 'foo', 'fs:[eax]', 'TBYTE PTR [esi]']
    m1 = ['cmpxchg8b', 'fld', 'fild', 'fstp', 'fadd', 'prefetchnta', 'inc', 'neg', 'push', 'pop', 'call', 'jmp', 'lgdt', 'sldt', 'invlpg', 'clflush', 'fbld', 'int']
    L = ['%s %s' % (m, o) for m in m1 for o in ops]
    for o in ops[:5] + ops[10:11]:
        L += ['mov %s, ax' % o, 'mov ax, %s' % o, 'lea eax, %s' % o, 'movq mm0, %s' % o, 'movzx eax, %s' % o, 'cmp %s, 1' % o, 'shl %s, 1' % o, 'movsd xmm0, %s' % o]
    L += ['movl %eax, 4(%esp)', 'nop', 'ret 4', 'rep movsb', 'mov eax, ]']
    return L


def asm_line(c, line):
    f = c.ia32.x86mnemo.asm_att if '%' in line else c.ia32.x86mnemo.asm
    try:
        with core.quiet_stdout():
            return json.dumps(hexs(f(line)))
    except Exception as ex:
        return 'EXC:%s' % type(ex).__name__


def _forked(fn):
    r, w = os.pipe()
    pid = os.fork()
    if pid == 0:
        os.close(r)
        try:
            data = pickle.dumps(fn())
        except BaseException as ex:
            data = pickle.dumps('EXC:harness %r' % (ex,))
        with os.fdopen(w, 'wb') as f:
            f.write(data)
        os._exit(0)
    os.close(w)
    with os.fdopen(r, 'rb') as f:
        data = f.read()
    os.waitpid(pid, 0)
    return pickle.loads(data)


def shard_asm_pairs(s, ns, tier, seed):
    c = make_ctx()
    part = core.Part()
    L = pair_lines()
    base = _forked(lambda: [_forked(lambda l=l: asm_line(c, l)) for l in L])      # every line alone, in a pristine image
    for i1, l1 in enumerate(L):
        if i1 % ns != s:
            continue

        def after_l1():
            first = asm_line(c, l1)
            return first, [_forked(lambda l=l: asm_line(c, l)) for l in L]
        first, res = _forked(after_l1)
        part.transitions += 1
        part.traces += 1
        for l2, b, r in zip(L, base, res):
            part.n += 1
            if b == r:
                part.keys.add(core.h64(('pair', l1, l2)))
            else:
                m1, m2 = l1.split()[0], l2.split()[0]
                shared = ' '.join(l1.split()[1:]) == ' '.join(l2.split()[1:])
                part.violation('asm-pair first=%s then=%s operand=%s' % (m1, m2, 'same-text' if shared else 'different-text'),
                               'asm(%r) returns %s in a pristine process but %s after asm(%r)' % (l2, b[:80], r[:80], l1), {'pair': [l1, l2]}, size=len(l1) + len(l2))
    return part


# ---------------------------------------------------------------------------
# parser-table cache configurations

CACHE_PROBE = r'''
import sys, os, json
sys.path.insert(0, %(repo)r)
sys.dont_write_bytecode = True
import logging
n0 = list(sys.path)
from miasmx.arch.ia32_arch import x86mnemo
logging.getLogger('x86escape').setLevel(100)
sys.path.insert(0, %(verif)r)
from mc.asmcorpus import CORPUS_INTEL, CORPUS_ATT
out = {'sys_path_preserved': [p for p in sys.path if p != %(verif)r] == n0}
so = sys.stdout
sys.stdout = open(os.devnull, 'w')
res = []
for l in CORPUS_INTEL:
    try:
        res.append([bytes(x).hex() for x in x86mnemo.asm(l)])
    except Exception as ex:
        res.append('EXC:' + type(ex).__name__)
for l in CORPUS_ATT:
    try:
        res.append([bytes(x).hex() for x in x86mnemo.asm_att(l)])
    except Exception as ex:
        res.append('EXC:' + type(ex).__name__)
for l in ('mov eax, ]', 'bogus', 'movl %%eax, )'):
    try:
        x86mnemo.asm(l)
        res.append('ok')
    except Exception as ex:
        res.append('EXC:' + type(ex).__name__)
sys.stdout = so
out['results'] = res
print(json.dumps(out))
'''

TABS = ('ply_ia32_intel_20150429.py', 'ply_ia32_att_20150429.py')


def cache_configs():
    return ['empty', 'warm', 'warm-other-hashseed', 'old-tabversion', 'other-grammar-signature', 'stale-rules-same-signature-inputs', 'truncated-file',
            'syntax-error-file', 'read-only-directory', 'nonexistent-directory', 'foreign-module-on-syspath']


def run_probe(tmpdir, extra_env=None, extra_path=None):
    env = dict(os.environ, TMPDIR=tmpdir, PYTHONHASHSEED='0')
    env.pop('PYTHONPATH', None)
    if extra_env:
        env.update(extra_env)
    if extra_path:
        env['PYTHONPATH'] = extra_path
    r = subprocess.run([sys.executable, '-c', CACHE_PROBE % {'repo': core.REPO, 'verif': core.VERIF}], env=env, stdout=subprocess.PIPE, stderr=subprocess.PIPE, cwd='/')
    if r.returncode != 0:
        return {'error': r.stderr.decode('utf8', 'replace')[-400:]}
    try:
        return json.loads(r.stdout.decode().strip().splitlines()[-1])
    except Exception:
        return {'error': 'unparsable output: ' + r.stdout.decode('utf8', 'replace')[-300:]}


def cache_experiment(part):
    base = tempfile.mkdtemp(prefix='c12cache-', dir=core.scratch())
    warm = os.path.join(base, 'warmsrc')
    os.makedirs(warm)
    ref = run_probe(warm)            # also populates 'warm'
    if 'error' in ref:
        core.harness_error('cache probe failed on a fresh directory: %s' % ref['error'])
    for cfg in cache_configs():
        d = os.path.join(base, cfg)
        env, path = None, None
        if cfg != 'nonexistent-directory':
            os.makedirs(d)
        if cfg in ('warm', 'old-tabversion', 'other-grammar-signature', 'truncated-file', 'syntax-error-file', 'read-only-directory', 'stale-rules-same-signature-inputs'):
            for t in TABS:
                shutil.copy(os.path.join(warm, t), os.path.join(d, t))
        if cfg == 'warm-other-hashseed':
            run_probe(d, {'PYTHONHASHSEED': '12345'})
        for t in TABS:
            p = os.path.join(d, t)
            if cfg == 'old-tabversion':
                s = open(p).read().replace("_tabversion = '3.2'", "_tabversion = '3.0'")
                open(p, 'w').write(s)
            elif cfg == 'other-grammar-signature':
                s = open(p).read()
                import re
                s = re.sub(r"_lr_signature = (b?)'", lambda m: "_lr_signature = %s'XX" % m.group(1), s, count=1)
                open(p, 'w').write(s)
            elif cfg == 'stale-rules-same-signature-inputs':
                pass                       # generated below from a mutated grammar
            elif cfg == 'truncated-file':
                s = open(p).read()
                open(p, 'w').write(s[:len(s) // 2])
            elif cfg == 'syntax-error-file':
                open(p, 'w').write('this is not python (\n')
        if cfg == 'stale-rules-same-signature-inputs':
            # tables generated (by the real PLY) from a grammar revision with the same p_* function names, tokens and
            # precedence but one production removed: a later process must notice that they are stale
            for t in TABS:
                try:
                    os.unlink(os.path.join(d, t))
                except OSError:
                    pass
            gen = (
                "import sys, os, re, types\n"
                "sys.path.insert(0, %r)\nsys.dont_write_bytecode = True\n"
                "import miasmx.core\n"
                "fn = %r + '/miasmx/core/parse_ad.py'\n"
                "src = open(fn).read()\n"
                "new = re.sub(r'\\n\\s*\\| expression TIMES expression', '', src, count=1)\n"
                "assert new != src\n"
                "mod = types.ModuleType('miasmx.core.parse_ad'); mod.__file__ = fn\n"
                "sys.modules['miasmx.core.parse_ad'] = mod\n"
                "exec(compile(new, fn, 'exec'), mod.__dict__)\n") % (core.REPO, core.REPO)
            g = subprocess.run([sys.executable, '-c', gen], env=dict(os.environ, TMPDIR=d, PYTHONHASHSEED='0'), stdout=subprocess.PIPE, stderr=subprocess.PIPE, cwd='/')
            if g.returncode != 0 or not os.path.exists(os.path.join(d, TABS[0])):
                part.skip('could not generate a stale table (grammar text changed)')
                part.counters['stale_table_generation_failed'] += 1
                continue
        if cfg == 'read-only-directory':
            os.chmod(d, 0o555)
        if cfg == 'foreign-module-on-syspath':
            fd = os.path.join(base, 'foreign')
            os.makedirs(fd, exist_ok=True)
            for t in TABS:
                open(os.path.join(fd, t), 'w').write("_tabversion = '3.2'\n_lr_method = 'LALR'\n_lr_signature = 'zz'\n_lr_action = {}\n_lr_goto = {}\n_lr_productions = []\n")
            path = fd
        got = run_probe(d, env, path)
        part.n += 1
        part.states += 1
        if cfg == 'read-only-directory':
            os.chmod(d, 0o755)
        if 'error' in got:
            part.violation('cache-config=%s outcome=import-fails' % cfg, 'with parser-table cache configuration %r importing/using the assembler fails: %s' % (cfg, got['error'][-200:]), {'config': cfg})
            continue
        if not got.get('sys_path_preserved', True):
            part.violation('cache-config=%s outcome=sys.path-changed' % cfg, 'importing miasmx.arch.ia32_arch with cache configuration %r changes sys.path' % cfg, {'config': cfg})
            continue
        if got['results'] != ref['results']:
            diff = [(i, a, b) for i, (a, b) in enumerate(zip(ref['results'], got['results'])) if a != b][:3]
            part.violation('cache-config=%s outcome=results-differ' % cfg, 'assembler results differ from the fresh-cache run under configuration %r: %s' % (cfg, diff), {'config': cfg})
            continue
        part.keys.add(core.h64(('cache', cfg)))
    shutil.rmtree(base, ignore_errors=True)


def run(tier, seed):
    t0 = time.time()
    core.import_x86()
    import multiprocessing
    ns = core.NPROC * 4
    part = core.Part()
    fps = {}
    fails = []
    with multiprocessing.get_context('fork').Pool(core.NPROC) as pool:
        for r in pool.imap_unordered(core._shard_entry, [(shard, s, ns, (tier, seed)) for s in range(ns)]):
            if isinstance(r, tuple):
                core.harness_error(r[1])
            fps.update(r.fps)
            fails += r.fails
            part.merge(r)
    # attribute every failing (history, probe) to its shortest failing sub-history (so that one leak is one finding)
    failing = {}
    for hist, p, b, g_ in fails:
        failing.setdefault(p, {})[hist] = (b, g_)
    for p, hs in failing.items():
        minimal = []
        for hist in sorted(hs, key=len):
            subs = []
            for n in range(1, len(hist)):
                subs += [tuple(x) for x in itertools.combinations(hist, n)]
            if any(sub in hs for sub in subs):
                continue
            minimal.append(hist)
        for hist in minimal:
            b, g_ = hs[hist]
            part.violation('probe=[%s] after=[%s]' % (CALLS[p][0], ' ; '.join(CALLS[i][0] for i in hist)),
                           'probe %r returns %s in a pristine process but %s after the history %s' % (CALLS[p][0], b, g_, [CALLS[i][0] for i in hist]),
                           {'history': list(hist), 'probe': p}, size=len(hist))
    part.counters['failing_history_probe_pairs'] = len(fails)
    # state graph: fingerprints = states; closure = no new fingerprint at the last depth
    by_depth = {}
    for h, fp in fps.items():
        by_depth.setdefault(len(h), set()).add(fp)
    seen = set()
    new_at = {}
    for d in sorted(by_depth):
        new_at[d] = len(by_depth[d] - seen)
        seen |= by_depth[d]
    part.states += len(seen)
    pi = core.run_sharded(shard_inputs, (tier, seed), nshards=core.NPROC * 2)
    pa = core.run_sharded(shard_asm_pairs, (tier, seed), nshards=core.NPROC * 4)
    pm = core.run_sharded(shard_machine_reads, (tier, seed), nshards=core.NPROC * 2)
    part.counters['machine_read_sequences'] = pm.n
    part.merge(pm)
    part.counters['asm_pairs'] = pa.n
    part.merge(pa)
    part.counters['input_immutability_cases'] = pi.n
    part.merge(pi)
    cache_experiment(part)
    part.counters['histories'] = len(fps) - 1
    part.counters['probes_per_history'] = len([1 for n, f in CALLS if n not in NOT_PROBES])
    depth = 2 if tier == 'quick' else 3
    rule = ('history exploration: alphabet of %d API calls, of which NARROW_N in the histories of length >= 2 and the rest (width-aware lifts of WIDE_L instructions under their prefix variants, WIDE_A assembler lines that are bare prefixes, fragments or rejected input) as histories of length 1 probed by the whole alphabet (dis, asm, asm_att incl. raising ones, lift, expr_simp / eval_expr on expressions built on '
            'the module-level register singletons and shared between calls, eval on machines with bound/absent registers and memory, emulation, '
            'eval_instr, instruction objects held across calls); ALL histories of length 1..%d (thorough: length 3 over the alphabet without 15 near-duplicate calls), each run in a forked child of a pristine image; after the history each of the %d probes runs '
            'in its own grand-child and must equal its pristine result; a call repeated within a history must repeat its result. states = distinct '
            'hidden-state fingerprints (instruction/register tables, memo flags on module-level expressions, sys.path), new fingerprints per '
            'depth = %s. assembler call pairs: every ordered pair of a 269-line alphabet in which differently treated mnemonics share operand text, second call against its pristine result. input immutability (incl. the address object handed to the lifter): %d expression trees x 6 APIs, instruction objects, machine states. cache configurations: %s, each in a '
            'fresh process with its own TMPDIR, compared on %d corpus lines and 3 invalid lines' % (
                len(CALLS), depth, len([1 for n, f in CALLS if n not in NOT_PROBES]), new_at, pi.n, cache_configs(), len(CORPUS_ALL)))
    rule = rule.replace('NARROW_N', str(NARROW)).replace('WIDE_L', str(len(WIDE_LIFTS))).replace('WIDE_A', str(len(WIDE_ASM) + len(WIDE_ATT)))
    return core.finish('C12', tier, seed, t0, part, rule, level='model_checking', exhaustive=True,
                       extra={'new_fingerprints_per_depth': new_at, 'fingerprint_set_closed': new_at.get(depth, 0) == 0, 'depth': depth},
                       assumptions=['fork gives each history a pristine copy of the library image', 'the fingerprint covers x86mndb, x86_afs, flags on ia32_sem expressions and sys.path only'])


def replay(w):
    c = make_ctx()
    if 'history' in w:
        probes = [w['probe']]
        _, _, base = fork_history(c, (), probes)
        _, _, res = fork_history(c, tuple(w['history']), probes)
        bad = base[w['probe']] != res[w['probe']]
        return bad, 'probe %r: pristine %s ; after %s: %s' % (CALLS[w['probe']][0], base[w['probe']][:200], [CALLS[i][0] for i in w['history']], res[w['probe']][:200])
    if 'mseq' in w:
        seq = tuple(w['mseq'])
        o1, p1, d1 = core.isolated(machine_run, c, seq)
        o2, p2, d2 = core.isolated(machine_run, c, tuple(i for i in seq if not MOPS[i][2]))
        return (p1, d1[1]) != (p2, d2[1]), 'with loads: %s ; without: %s' % (p1, p2)
    if 'pair' in w:
        l1, l2 = w['pair']
        b = _forked(lambda: asm_line(c, l2))
        r = _forked(lambda: (asm_line(c, l1), asm_line(c, l2))[1])
        return b != r, 'asm(%r): pristine %s ; after asm(%r): %s' % (l2, b[:200], l1, r[:200])
    if 'config' in w:
        part = core.Part()
        cache_experiment(part)
        bad = [k for k in part.viols if w['config'] in k]
        return bool(bad), str([part.viols[k][1] for k in bad])
    if 'hex' in w and 'addr' in w:
        X = c.X
        addr, hx = w['addr'], w['hex']
        with core.quiet_stdout():
            i = c.ia32.x86mnemo.dis(bytes.fromhex(hx))
            e = X.ExprInt32(addr)
            fresh = [str(x) for x in c.eh.get_instr_expr(c.ia32.x86mnemo.dis(bytes.fromhex(hx)), X.ExprInt32(addr), [])]
            got = [str(x) for x in c.eh.get_instr_expr(i, e, [])]
        now = (type(e.arg).__name__, int(e.arg))
        return now != ('uint32', addr) or got != fresh, 'address object after lifting %s: %s(%#x); lift %s' % (hx, now[0], now[1], got[:3])
    if 'tree' in w and 'api' in w:
        part = core.Part()
        from .. import irsem

        def tup(x):
            return tuple(tup(i) for i in x) if isinstance(x, list) else x
        t = tup(w['tree'])
        e = irsem.from_neutral(t)
        before = irsem.to_neutral(e)
        try:
            {'expr_simp': lambda: c.H.expr_simp(e), 'copy': e.copy, 'canonize': e.canonize, 'get_r': lambda: e.get_r(mem_read=True),
             'replace_expr': lambda: e.replace_expr({}), 'eval_expr': lambda: c.EA.eval_abs({}, log=c.log).eval_expr(e, {})}[w['api']]()
        except Exception:
            pass
        after = irsem.to_neutral(e)
        return after != before, '%s: before %s, after %s' % (w['api'], irsem.show(before), irsem.show(after))
    return False, 'no stand-alone replay for this witness kind: re-run the check'

