"""C11 - every decodable instruction with lifted semantics lifts to well-typed IR.
Every string of S_x86 that both decoders accept and whose mnemonic is in the lifter's dispatch table (or uses
the MMX fallback), under operand/address-size prefixes: get_instr_expr must not raise, and an independent
checker walks the result (assignment shape, widths, slices, concatenation tiling, flag booleans, no double write)."""
import time, sys, zlib
import numpy as np
from .. import core, irsem, x86space as S, x86ref as R
from . import c01
from .c10 import raising_function

NEEDS_X86 = True
EQW = ('+', '-', '*', '&', '|', '^', '==')
FLAGS = ('zf', 'nf', 'pf', 'of', 'cf', 'af', 'df', 'tf', 'i_f', 'nt', 'rf', 'vm', 'ac', 'vif', 'vip', 'i_d')


INTERPRETED = set(EQW) | set(irsem.SHIFTS) | {'parity', '!', '<'} | set(irsem.LIFTER2) | set(irsem.LIFTER3)


class Bad(Exception):
    def __init__(self, rule, msg):
        Exception.__init__(self, msg)
        self.rule = rule


def wd(t):
    """determinate width of a value expression, checking the typing rules the property states"""
    k = t[0]
    if k == 'int':
        return t[1]
    if k == 'id':
        if not isinstance(t[2], int) or t[2] <= 0:
            raise Bad('width-indeterminate', 'identifier %s has size %r' % (t[1], t[2]))
        return t[2]
    if k == 'mem':
        wd(t[1])
        if t[3] is not None:
            wd(t[3])
        if not isinstance(t[2], int) or t[2] <= 0:
            raise Bad('width-indeterminate', 'memory cell of size %r' % (t[2],))
        return t[2]
    if k == 'op':
        op, args = t[1], t[2]
        if not args:
            raise Bad('width-indeterminate', 'operator %s without operand' % op)
        ws = [wd(a) for a in args]
        if op in EQW and len(set(w for w in ws if w is not None)) > 1:
            raise Bad('operand-widths', 'operands of %s have widths %s' % (op, ws))
        if op not in INTERPRETED:
            return None          # x87 / MMX / cpuid / segment helpers: the IR declares no result width
        return ws[0]
    if k == 'slice':
        w = wd(t[1])
        if w is None:
            return t[3] - t[2]
        if not (isinstance(t[2], int) and isinstance(t[3], int) and 0 <= t[2] < t[3] <= w):
            raise Bad('slice-bounds', 'slice [%s:%s] of a %d-bit operand' % (t[2], t[3], w))
        return t[3] - t[2]
    if k == 'compose':
        pos = 0
        for a, s, e in sorted(t[1], key=lambda z: z[1]):
            wd(a)
            if s != pos or e <= s:
                raise Bad('compose-tiling', 'concatenation slots %s do not tile' % [(s, e) for _, s, e in t[1]])
            pos = e
        return pos
    if k == 'cond':
        wd(t[1])
        w1, w2 = wd(t[2]), wd(t[3])
        if w1 is None or w2 is None:
            return w1 or w2
        if w1 != w2:
            raise Bad('cond-arms', 'arms of a conditional have widths %d and %d' % (w1, w2))
        return w1
    if k == 'aff':
        raise Bad('nested-assignment', 'an assignment occurs inside a value expression')
    raise Bad('unknown-node', repr(t)[:60])


def ids_of(t, acc):
    k = t[0]
    if k == 'id':
        acc[t[1]] = t[2]
    elif k == 'mem':
        ids_of(t[1], acc)
        if t[3] is not None:
            ids_of(t[3], acc)
    elif k == 'op':
        for a in t[2]:
            ids_of(a, acc)
    elif k == 'slice':
        ids_of(t[1], acc)
    elif k == 'compose':
        for a, s, e in t[1]:
            ids_of(a, acc)
    elif k == 'cond':
        for x in t[1:]:
            ids_of(x, acc)
    return acc


_VALS = [0, 1, 2, 0x7f, 0x80, 0xff, 0x7fff, 0x8000, 0xffff, 0x7fffffff, 0x80000000, 0xffffffff, 0x12345678, 0xdeadbeef, 0x55555555, 0xaaaaaaaa]


def boolean_valued(t):
    """True/False if decidable on the boundary valuations, None if the expression uses uninterpreted operators"""
    ids = ids_of(t, {})
    n = 64
    env = {}
    for j, (name, w) in enumerate(sorted(ids.items())):
        h = zlib.crc32(name.encode())
        vals = [_VALS[(h + i * (j + 3) + (i >> 2)) % len(_VALS)] for i in range(n)]
        if w == 1:
            vals = [(h >> (i % 13)) & 1 for i in range(n)]
        env[name] = np.array(vals, dtype=np.uint64) & np.uint64(irsem.mask(min(w, 64)))
    try:
        v = irsem.ev_np(t, env, 0, lanes=n)
    except (irsem.Unsupported, KeyError, IndexError, TypeError, ValueError):
        return None
    return bool((v <= np.uint64(1)).all())


def check_list(lst):
    """raises Bad on the first rule the lifted list breaks"""
    X = irsem.X()
    written = []
    for e in lst:
        if not isinstance(e, X.ExprAff):
            raise Bad('not-an-assignment', 'element %s is a %s' % (str(e)[:60], type(e).__name__))
        try:
            t = irsem.to_neutral(e)
        except irsem.Unsupported as ex:
            raise Bad('unknown-node', str(ex))
        dst, src = t[1], t[2]
        if dst[0] not in ('id', 'mem'):
            raise Bad('destination-kind', 'destination %s is neither register nor memory cell' % irsem.show(dst))
        ws = wd(src)
        wdst = wd(dst)
        if ws is not None and wdst is not None and ws != wdst:
            if dst[0] == 'id' and wdst == 1 and ws > 1:
                b = boolean_valued(src)
                if b is False:
                    raise Bad('flag-not-boolean', '1-bit %s receives %s which is not always 0/1' % (dst[1], irsem.show(src)[:80]))
            else:
                raise Bad('source-width(%d/%d)' % (ws, wdst), '%s (%d bits) = %s (%d bits)' % (irsem.show(dst), wdst, irsem.show(src)[:80], ws))
        written.append(dst)
    for i in range(len(written)):
        for j in range(i + 1, len(written)):
            a, b = written[i], written[j]
            if a[0] == 'id' and b[0] == 'id' and a[1] == b[1]:
                raise Bad('double-write', 'register %s is assigned twice' % a[1])
            if a[0] == 'mem' and b[0] == 'mem':
                d = const_diff(a[1], b[1])
                if d is not None:
                    # ranges [0, size_a) and [d, d+size_b) in bytes
                    if d < a[2] // 8 and -d < b[2] // 8:
                        raise Bad('double-write', 'memory cells %s and %s overlap' % (irsem.show(a), irsem.show(b)))


def split_const(t):
    """address = base + constant (syntactically)"""
    if t[0] == 'int':
        return None, t[2]
    if t[0] == 'op' and t[1] == '+' and len(t[2]) == 2 and t[2][1][0] == 'int':
        return t[2][0], t[2][1][2]
    if t[0] == 'op' and t[1] == '+' and len(t[2]) == 2 and t[2][0][0] == 'int':
        return t[2][1], t[2][0][2]
    if t[0] == 'op' and t[1] == '-' and len(t[2]) == 2 and t[2][1][0] == 'int':
        return t[2][0], -t[2][1][2]
    return t, 0


def const_diff(a, b):
    ba, ca = split_const(a)
    bb, cb = split_const(b)
    if ba != bb:
        return None
    d = (cb - ca) & 0xffffffff
    return d - (1 << 32) if d >= (1 << 31) else d


def opkinds(ins):
    from miasmx.arch.ia32_reg import x86_afs
    ks = []
    for a in ins.arg:
        try:
            if a.get(x86_afs.ad):
                ks.append('m%s' % {x86_afs.u08: 8, x86_afs.u16: 16, x86_afs.u32: 32}.get(a.get(x86_afs.size), ''))
            elif x86_afs.imm in a and len([k for k in a if isinstance(k, int) and k not in (x86_afs.imm, x86_afs.size, x86_afs.ad)]) == 0:
                ks.append('i')
            else:
                ks.append('r%s' % {x86_afs.u08: 8, x86_afs.u16: 16, x86_afs.u32: 32}.get(a.get(x86_afs.size), ''))
        except Exception:
            ks.append('?')
    return ','.join(ks)


def lift_case(part, emul_helper, sem, X, b, meta, ins):
    name = ins.m.name
    if name not in sem.mnemo_func and '#' not in name:
        part.skip('mnemonic-without-lifted-semantics')
        return
    from miasmx.arch.ia32_reg import x86_afs
    mode = '%s/%s' % ('o16' if ins.opmode == x86_afs.u16 else 'o32', 'a16' if ins.admode == x86_afs.u16 else 'a32')
    sigbase = 'mnemo=%s ops=%s %s' % (name, opkinds(ins), mode)
    wit = {'bytes': b.hex()}
    try:
        with core.watchdog(5):
            lst = emul_helper.get_instr_expr(ins, X.ExprInt32(ins.l), [])
    except core.Timeout:
        part.n += 1
        part.violation('%s rule=timeout' % sigbase, 'lifting %s (%s) does not terminate' % (b[:ins.l].hex(), str(ins).strip()), wit)
        return
    except Exception as ex:
        part.n += 1
        part.violation('mnemo=%s %s rule=raises:%s in=%s' % (name, mode, type(ex).__name__, raising_function(sys.exc_info()[2])),
                       'lifting %s (%s) raises %r' % (b[:ins.l].hex(), str(ins).strip(), ex), wit, size=len(meta[0]) * 100 + len(opkinds(ins)))
        return
    try:
        if not isinstance(lst, (list, tuple)):
            raise Bad('not-a-list', 'get_instr_expr returned %s' % type(lst).__name__)
        check_list(lst)
    except Bad as ex:
        part.n += 1
        part.violation('%s rule=%s' % (sigbase, ex.rule), '%s (%s): %s' % (b[:ins.l].hex(), str(ins).strip(), ex), wit, size=len(meta[0]) * 100)
        return
    part.ok(core.h64(b), outcome=(name, opkinds(ins)), sample={'bytes': b[:ins.l].hex(), 'instr': str(ins).strip(), 'lifted': [str(e) for e in lst][:4]} if len(part.samples) < 2 else None)


def shard(s, ns, tier, seed):
    ia32 = core.import_x86()
    from miasmx.tools import emul_helper
    import miasmx.arch.ia32_sem as sem
    X = irsem.X()
    part = core.Part()
    U = S.units(tier)
    mine = list(range(s, len(U), ns))
    for c0 in range(0, len(mine), c01.CHUNK_UNITS):
        cases = []
        for ui in mine[c0:c0 + c01.CHUNK_UNITS]:
            cases += list(S.cases_of(U[ui], tier))
        with core.quiet_stdout():
            mxs = c01.decode_all(ia32, cases)
        ods = R.objdump_batch([b for b, m in cases])
        with core.quiet_stdout():
            for idx, ((b, meta), mx, od) in enumerate(zip(cases, mxs, ods)):
                if mx is None or mx[0] == 'EXC':
                    part.skip('miasmx-rejects-or-raises')
                    continue
                if od is None or od[1] is None or '(bad)' in od[1] or od[1].startswith('.'):
                    part.skip('reference-rejects')
                    continue
                lift_case(part, emul_helper, sem, X, b, meta, mx[3])
    return part


def run(tier, seed):
    t0 = time.time()
    core.import_x86()
    part = core.run_sharded(shard, (tier, seed), nshards=core.NPROC * 6)
    rule = ('case = byte string of S_x86 that miasmX decodes, the reference decoder accepts, and whose mnemonic is in mnemo_func or contains # '
            '(MMX fallback); prefix sets include 66 and 67. get_instr_expr(instr, next_eip) must return a list without raising; each element must '
            'be an ExprAff with register/memory destination and no nested assignment; widths determinate; operands of + - * & | ^ == equal; slices '
            'inside; concatenation slots tile [0,size); source as wide as destination unless a 1-bit flag receives an expression that irsem '
            'evaluates to 0/1 on 64 boundary valuations (undecidable for uninterpreted operators: accepted); no two destinations equal or '
            'overlapping (same base, constant offsets). distinct = distinct byte strings')
    return core.finish('C11', tier, seed, t0, part, rule, exhaustive=True, space={'work_units': len(S.units(tier))},
                       assumptions=['objdump decides "is an instruction"', 'operators other than + - * & | ^ == are not width-constrained (as the property states)'])


def replay(w):
    ia32 = core.import_x86()
    from miasmx.tools import emul_helper
    import miasmx.arch.ia32_sem as sem
    part = core.Part()
    b = bytes.fromhex(w['bytes'])
    with core.quiet_stdout():
        ins = ia32.x86mnemo.dis(b.ljust(32, b'\x90'))
        lift_case(part, emul_helper, sem, irsem.X(), b, ((), '1', 0, 0, None), ins)
    if part.viols:
        return True, '\n'.join('%s: %s' % (k, v[1]) for k, v in part.viols.items())
    return False, 'ok'
