"""C17 - control-flow metadata agrees with the architecture.
(A) every string of S_x86 that both decoders accept: breakflow/splitflow/dstflow against a hand-written
IA-32 control-flow table (cross-checked against the reference decoder's mnemonic), getnextflow = offset + length.
(B) every direct relative form x boundary displacements x instruction offsets up to 2^32 (virtual stream):
getnextflow and getdstflow against offset + length + sign-extended displacement truncated to the operand size."""
import time, struct
from .. import core, x86space as S, x86ref as R
from . import c01

NEEDS_X86 = True


def cf_class(meta):
    pfx, m, op, modrm, sib = meta
    reg = (modrm >> 3) & 7
    if m == '1':
        if op in (0xEB, 0xE9, 0xEA) or (op == 0xFF and reg in (4, 5)):
            return 'jmp'
        if op in (0xC3, 0xC2, 0xCB, 0xCA, 0xCF):
            return 'ret'
        if op == 0xF4:
            return 'hlt'
        if 0x70 <= op <= 0x7F or 0xE0 <= op <= 0xE3:
            return 'jcc'
        if op in (0xE8, 0x9A) or (op == 0xFF and reg in (2, 3)):
            return 'call'
        return 'none'
    if m == '0f':
        if op == 0x0B:
            return 'ud2'
        if 0x80 <= op <= 0x8F:
            return 'jcc'
        if op in (0x05, 0x07, 0x34, 0x35, 0xFF, 0xB9):
            return 'excluded'
        return 'none'
    return 'none'


EXPECT = {          # class: (breakflow, splitflow, dstflow)  None = not constrained
    'jmp': (True, False, True), 'ret': (True, False, None), 'hlt': (True, False, None), 'ud2': (True, False, None),
    'jcc': (True, True, True), 'call': (True, True, True), 'none': (False, False, None),
}
REF_CLASS = [(('jmp', 'jmpf'), 'jmp'), (('ret', 'retf', 'iret'), 'ret'), (('hlt',), 'hlt'), (('ud2',), 'ud2'),
             (('call', 'callf'), 'call')]


def ref_class(mn):
    for names, c in REF_CLASS:
        if mn in names:
            return c
    if (mn.startswith('j') and mn not in ('jmp', 'jmpf')) or mn.startswith('loop'):
        return 'jcc'
    if mn in ('syscall', 'sysenter', 'sysexit', 'sysret', 'ud0', 'ud1', 'ud2a', 'ud2b', 'xbegin', 'xabort'):
        return 'excluded'
    return 'none'


def shard_a(s, ns, tier, seed):
    ia32 = core.import_x86()
    part = core.Part()
    U = S.units(tier)
    mine = list(range(s, len(U), ns))
    for c0 in range(0, len(mine), c01.CHUNK_UNITS):
        cases = []
        for ui in mine[c0:c0 + c01.CHUNK_UNITS]:
            cases += list(S.cases_of(U[ui], tier))
        with core.quiet_stdout():
            mxs = c01.decode_all(ia32, cases)
        ods = R.objdump_batch([b for b, m in cases])
        for idx, ((b, meta), mx, od) in enumerate(zip(cases, mxs, ods)):
            r = c01.judge(b, meta, mx, od, idx)
            if r[0] == 'skip':
                part.skip(r[1])
                continue
            cls = cf_class(meta)
            try:
                nfo, _ = R.parse_intel(od[1], addr=idx * R.SLOT, length=od[0], source='od')
                rc = ref_class(nfo.mnemo)
            except R.Unparsable:
                part.skip('reference-unparsable')
                continue
            if cls == 'excluded' or rc == 'excluded':
                part.skip('excluded (sys*/ud0/ud1: either classification is defensible)')
                continue
            if rc != cls:
                part.skip('table-vs-reference-mismatch')
                part.counters['table_vs_reference_mismatch'] += 1
                continue
            ins = mx[3]
            site = S.site(meta)
            wit = {'bytes': b.hex(), 'meta': [list(meta[0]), meta[1], meta[2], meta[3], meta[4]]}
            try:
                got = (bool(ins.breakflow()), bool(ins.splitflow()), bool(ins.dstflow()))
                nf = ins.getnextflow()
            except Exception as ex:
                part.n += 1
                part.violation('%s class=%s attr=exception:%s' % (site, cls, type(ex).__name__), '%s (%s): %r' % (b[:od[0]].hex(), mx[2].strip(), ex), wit)
                continue
            exp = EXPECT[cls]
            bad = None
            for name, g, e in zip(('breakflow', 'splitflow', 'dstflow'), got, exp):
                if e is not None and g != e:
                    bad = '%s(%s, expected %s)' % (name, g, e)
                    break
            if bad is None and nf != mx[0]:
                bad = 'nextflow(%s, expected %s)' % (nf, mx[0])
            if bad:
                part.n += 1
                part.violation('%s class=%s attr=%s' % (site, cls, bad.split('(')[0]), '%s (%s): %s' % (b[:mx[0]].hex(), mx[2].strip(), bad), wit,
                               size=len(meta[0]) * 1000 + meta[3])
            else:
                part.ok(core.h64(b), outcome=(cls, got), sample={'bytes': b[:mx[0]].hex(), 'instr': mx[2].strip(), 'class': cls, 'flow': list(got)} if len(part.samples) < 2 and cls != 'none' else None)
    return part


# ---------------------------------------------------------------------------
class VirtMem(object):
    """4 GiB virtual byte space holding one instruction at a chosen address (no 4 GB buffer)"""
    def __init__(self, at, data):
        self.at, self.data = at, data

    def __len__(self):
        return 1 << 32

    def __call__(self, a, b, section=None):
        out = bytearray()
        for x in range(a, b):
            i = x - self.at
            out.append(self.data[i] if 0 <= i < len(self.data) else 0x90)
        return bytes(out)

    def __getitem__(self, item):
        return self(item.start or 0, item.stop)


def direct_forms():
    """(name, prefix bytes, opcode bytes, displacement width, operand size)"""
    F = []
    for op in [0xEB] + list(range(0x70, 0x80)) + [0xE0, 0xE1, 0xE2, 0xE3]:
        F.append(('%02x' % op, b'', bytes([op]), 8, 32))
        F.append(('66.%02x' % op, b'\x66', bytes([op]), 8, 16))
    for op in (0xE0, 0xE2, 0xE3):
        F.append(('67.%02x' % op, b'\x67', bytes([op]), 8, 32))
    for op in (0xE8, 0xE9):
        F.append(('%02x' % op, b'', bytes([op]), 32, 32))
        F.append(('66.%02x' % op, b'\x66', bytes([op]), 16, 16))
    for op in range(0x80, 0x90):
        F.append(('0f%02x' % op, b'', bytes([0x0F, op]), 32, 32))
        F.append(('66.0f%02x' % op, b'\x66', bytes([0x0F, op]), 16, 16))
    # address-size prefix alone (nothing changes) and together with the operand-size prefix, in both orders (rel16)
    for opc, nm in [(bytes([0xE8]), 'e8'), (bytes([0xE9]), 'e9')] + [(bytes([0x0F, op]), '0f%02x' % op) for op in (0x80, 0x84, 0x8F)]:
        F.append(('67.' + nm, b'\x67', opc, 32, 32))
        F.append(('66.67.' + nm, b'\x66\x67', opc, 16, 16))
        F.append(('67.66.' + nm, b'\x67\x66', opc, 16, 16))
    for op in (0xEB, 0x74, 0xE2):
        F.append(('66.67.%02x' % op, b'\x66\x67', bytes([op]), 8, 16))
    # the operand-size prefix twice with another prefix in between (still 16-bit), and three distinct prefixes
    for mid in (0x2E, 0x67, 0x3E, 0xF2):
        pf = bytes([0x66, mid, 0x66])
        nm = '66.%02x.66.' % mid
        a16 = mid == 0x67
        F.append((nm + 'e8', pf, bytes([0xE8]), 16, 16))
        F.append((nm + 'e9', pf, bytes([0xE9]), 16, 16))
        F.append((nm + '0f85', pf, bytes([0x0F, 0x85]), 16, 16))
        F.append((nm + 'eb', pf, bytes([0xEB]), 8, 16))
        F.append((nm + '74', pf, bytes([0x74]), 8, 16))
    F.append(('2e.66.67.e8', b'\x2e\x66\x67', bytes([0xE8]), 16, 16))
    F.append(('67.67.e8', b'\x67\x67', bytes([0xE8]), 32, 32))
    F.append(('66.66.e8', b'\x66\x66', bytes([0xE8]), 16, 16))
    for p in (0x2E, 0x3E):          # branch hints
        F.append(('%02x.74' % p, bytes([p]), b'\x74', 8, 32))
        F.append(('%02x.0f84' % p, bytes([p]), b'\x0f\x84', 32, 32))
    return F


def disps(w, seed):
    ds = [0, 1, 2, -1, -2, 5, 0x7f, -0x80, 0x10, -0x10]
    if w >= 16:
        ds += [0x80, -0x81, 0x7fff, -0x8000, 0x1234, -0x1234]
    if w >= 32:
        ds += [0x8000, -0x8001, 0xffff, 0x10000, -0x10000, 0x7fffffff, -0x80000000, 0x12345678, -0x12345678]
    import random
    for k in range(3):          # fixed pseudo-random extras (independent of VERIF_SEED)
        r = random.Random(k * 17 + w)
        ds += [r.randrange(-(1 << (w - 1)), 1 << (w - 1)) for _ in range(2)]
    return ds


OFFSETS = [0, 1, 0x10, 0x1000, 0xfff0, 0xffff, 0x10000, 0x7ffffff0, 0x7fffffff, 0x80000000, 0xffffff00, 0xfffffff0,
           0xfffffff4, 0xfffffff6, 0xfffffff8, 0xfffffff9, 0xfffffffa, 0xfffffffb, 0xfffffffc, 0xfffffffd]


RENDER_FORMATS = ['intel_syntax noprefix', 'intel_syntax', 'att_syntax', 'att_syntax binutils', 'att_syntax objdump', 'intel_syntax objdump', 'intel_syntax noprefix']


def target_case(part, ia32, form, d, off):
    from miasmx.core.bin_stream import bin_stream
    name, pfx, opc, w, osz = form
    enc = pfx + opc + struct.pack({8: '<b', 16: '<h', 32: '<i'}[w], d)
    l = len(enc)
    wit = {'form': name, 'disp': d, 'offset': off, 'bytes': enc.hex()}
    if off + l > (1 << 32):
        part.skip('instruction would cross 2^32')
        return
    try:
        st = bin_stream(VirtMem(off, enc), off)
        with core.quiet_stdout():
            ins = ia32.x86mnemo.dis(st)
    except Exception as ex:
        part.n += 1
        part.violation('form=%s attr=exception:%s' % (name, type(ex).__name__), '%s at %#x: %r' % (enc.hex(), off, ex), wit)
        return
    if ins is None:
        part.n += 1
        part.violation('form=%s attr=not-decoded offset-class=%s' % (name, 'high' if off >= 0x80000000 else 'low'),
                       '%s at offset %#x is not decoded' % (enc.hex(), off), wit)
        return
    exp_next = off + l
    exp_dst = (off + l + d) & ((1 << osz) - 1)
    try:
        nf = ins.getnextflow()
        dst = ins.getdstflow()
    except Exception as ex:
        part.n += 1
        part.violation('form=%s attr=exception:%s' % (name, type(ex).__name__), '%s at %#x: %r' % (enc.hex(), off, ex), wit)
        return
    bad = None
    if ins.l != l:
        bad = ('length', 'length %d, encoded %d' % (ins.l, l))
    elif nf != exp_next:
        bad = ('nextflow', 'getnextflow() = %#x, expected %#x' % (nf, exp_next))
    elif not (isinstance(dst, list) and len(dst) == 1 and isinstance(dst[0], int) or (isinstance(dst, list) and len(dst) == 1 and hasattr(dst[0], '__int__') and not isinstance(dst[0], dict))):
        bad = ('target-shape', 'getdstflow() = %r' % (dst,))
    elif int(dst[0]) != exp_dst:
        wrap = 'wrap' if (off + l + d) != exp_dst else 'plain'
        bad = ('target-%s' % wrap, 'getdstflow() = [%#x], architectural target %#x (offset %#x + length %d + disp %d, %d-bit)' % (
            int(dst[0]), exp_dst, off, l, d, osz))
    if not bad:
        # the reported flow is a property of the decoded instruction: rendering it (every output format) must not change it
        try:
            with core.quiet_stdout():
                for fmt in RENDER_FORMATS:
                    try:
                        ins.__str__(asm_format=fmt)
                    except Exception:
                        pass            # a rendering that raises is C10's business; the flow must survive it all the same
                    nf2, dst2 = ins.getnextflow(), ins.getdstflow()
                    if nf2 != nf or [int(x) for x in dst2] != [int(dst[0])]:
                        bad = ('flow-after-render', 'after rendering as %r: getnextflow() = %#x, getdstflow() = %s; before: %#x, [%#x]' % (
                            fmt, nf2, [hex(int(x)) for x in dst2], nf, int(dst[0])))
                        break
        except Exception as ex:
            bad = ('flow-after-render', 'rendering / re-reading the flow raises %r' % (ex,))
    if bad:
        part.n += 1
        part.violation('form=%s attr=%s' % (name, bad[0]), '%s at %#x: %s' % (enc.hex(), off, bad[1]), wit, size=abs(d) + off)
    else:
        part.ok(core.h64((name, d, off)), outcome=(name, exp_dst & 0xff),
                sample={'form': name, 'bytes': enc.hex(), 'offset': hex(off), 'getdstflow': hex(int(dst[0]))} if len(part.samples) < 2 and off > 0x7fffffff else None)


def shard_b(s, ns, tier, seed):
    ia32 = core.import_x86()
    part = core.Part()
    k = 0
    for form in direct_forms():
        for d in disps(form[3], seed):
            for off in OFFSETS:
                k += 1
                if k % ns != s:
                    continue
                target_case(part, ia32, form, d, off)
    return part


def run(tier, seed):
    t0 = time.time()
    core.import_x86()
    part = core.run_sharded(shard_a, (tier, seed), nshards=core.NPROC * 6)
    pb = core.run_sharded(shard_b, (tier, seed), nshards=core.NPROC)
    part.counters['target_cases'] = pb.n
    part.counters['classification_cases'] = part.n
    part.merge(pb)
    rule = ('(A) every string of S_x86 accepted by both decoders without superfluous prefix: control-flow class from a hand-written table on '
            '(map, opcode, /digit) [jmp: eb e9 ea ff/4 ff/5; ret: c3 c2 cb ca cf; hlt f4; ud2 0f0b; jcc: 70-7f 0f80-8f e0-e3; call: e8 9a ff/2 ff/3; '
            'sys*/ud0/ud1 excluded; everything else not block-ending], accepted only where objdump\'s mnemonic gives the same class; '
            'breakflow/splitflow/dstflow truth values and getnextflow()=offset+length compared. (B) %d direct relative forms (rel8/16/32, with '
            '66/67/branch-hint prefixes) x boundary displacements x %d instruction offsets up to 2^32-3 through a virtual 4 GiB stream: '
            'getnextflow() and getdstflow() against offset+length+sext(disp) mod 2^opsize' % (len(direct_forms()), len(OFFSETS)))
    return core.finish('C17', tier, seed, t0, part, rule, exhaustive=True,
                       space={'work_units': len(S.units(tier)), 'direct_forms': len(direct_forms()), 'offsets': len(OFFSETS)},
                       assumptions=['control-flow table in mc/props/c17.py (from the SDM), cross-checked per case against objdump\'s mnemonic',
                                    'the fall-through address is not reduced modulo 2^32 (the property states offset + length)'])


def replay(w):
    ia32 = core.import_x86()
    part = core.Part()
    if 'form' in w:
        form = [f for f in direct_forms() if f[0] == w['form']][0]
        target_case(part, ia32, form, w['disp'], w['offset'])
    else:
        b = bytes.fromhex(w['bytes'])
        m = w['meta']
        meta = (tuple(m[0]), m[1], m[2], m[3], m[4])
        with core.quiet_stdout():
            ins = ia32.x86mnemo.dis(b.ljust(32, b'\x90'))
        cls = cf_class(meta)
        got = (bool(ins.breakflow()), bool(ins.splitflow()), bool(ins.dstflow()))
        exp = EXPECT[cls]
        ok = all(e is None or g == e for g, e in zip(got, exp)) and ins.getnextflow() == ins.l
        return (not ok), '%s: class %s, (breakflow, splitflow, dstflow) = %s, expected %s, nextflow %s' % (b.hex(), cls, got, exp, ins.getnextflow())
    if part.viols:
        return True, '\n'.join('%s: %s' % (k, v[1]) for k, v in part.viols.items())
    return False, 'ok'
