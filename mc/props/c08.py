"""C08 - read/write sets of the lifted semantics never omit a real dependency.
For every supported instruction form (integer core of C04 + x87 + MMX/SSE register and memory forms) and 3 base states,
every location of the observed universe is perturbed in isolation on the host CPU (2 alternative values): if any written
output differs, the location is a real read and must be in the union of get_r(mem_read=True) of the lifted list; every
location whose value changes must be in the union of get_w()."""
import time, sys, re, struct, itertools
from .. import core, irsem, cpu, x86ref as R
from . import c04

NEEDS_X86 = True
GPR = cpu.REGS
FLG = ['cf', 'pf', 'af', 'zf', 'nf', 'of', 'df']

FP_FORMS = [
    'fld st(1)', 'fld DWORD PTR [esi]', 'fld QWORD PTR [esi]', 'fst st(2)', 'fstp st(1)', 'fst DWORD PTR [esi]', 'fstp QWORD PTR [esi]',
    'fadd st, st(1)', 'fadd st(2), st', 'faddp st(1), st', 'fsub st, st(1)', 'fsubr st, st(2)', 'fsubp st(1), st', 'fmul st, st(1)', 'fmulp st(1), st',
    'fdiv st, st(1)', 'fdivr st(1), st', 'fdivp st(1), st', 'fadd DWORD PTR [esi]', 'fmul QWORD PTR [esi]', 'fchs', 'fabs', 'fxch st(1)', 'fxch st(3)',
    'fild DWORD PTR [esi]', 'fild WORD PTR [esi]', 'fistp DWORD PTR [esi]', 'fist DWORD PTR [esi]', 'fisttp DWORD PTR [esi]', 'fiadd DWORD PTR [esi]',
    'fcom st(1)', 'fcomp st(1)', 'fucom st(1)', 'fucomp st(1)', 'fucompp', 'fcomi st, st(1)', 'fucomi st, st(1)', 'fcomip st, st(1)', 'fucomip st, st(1)',
    'fcmovb st, st(1)', 'fcmove st, st(1)', 'fcmovbe st, st(1)', 'fcmovu st, st(1)', 'fcmovnb st, st(1)', 'fcmovne st, st(1)', 'fcmovnbe st, st(1)', 'fcmovnu st, st(1)',
    'fnstsw ax', 'fnstsw WORD PTR [esi]', 'fnstcw WORD PTR [esi]', 'fldcw WORD PTR [esi]', 'fld1', 'fldz', 'fldpi', 'fsqrt', 'frndint', 'fxam', 'ftst', 'ffree st(2)',
    'fincstp', 'fdecstp', 'fnop',
]
SSE_FORMS = [
    'movd mm0, eax', 'movd eax, mm1', 'movq mm0, mm1', 'movq mm0, QWORD PTR [esi]', 'movq QWORD PTR [esi], mm1', 'paddd mm0, mm1', 'pxor mm2, mm3', 'psubb mm1, QWORD PTR [esi]',
    'psllw mm1, 3', 'punpcklbw mm0, mm1', 'pcmpeqb mm0, mm1', 'pmovmskb eax, mm1', 'pshufw mm0, mm1, 0x1b', 'emms',
    'movd xmm0, eax', 'movd eax, xmm1', 'movd xmm0, DWORD PTR [esi]', 'movd DWORD PTR [esi], xmm1', 'movq xmm0, xmm1', 'movq xmm0, QWORD PTR [esi]', 'movq QWORD PTR [esi], xmm1',
    'paddd xmm0, xmm1', 'pxor xmm2, xmm3', 'pand xmm0, XMMWORD PTR [esi]', 'movaps xmm0, xmm1', 'movaps XMMWORD PTR [esi], xmm1', 'movups xmm0, XMMWORD PTR [esi]',
    'movdqa xmm2, xmm3', 'movdqu XMMWORD PTR [esi], xmm2', 'movss xmm1, xmm0', 'movss xmm0, DWORD PTR [esi]', 'movss DWORD PTR [esi], xmm1', 'movsd xmm1, xmm0',
    'movsd xmm0, QWORD PTR [esi]', 'movsd QWORD PTR [esi], xmm1', 'movlps QWORD PTR [esi], xmm0', 'movlps xmm0, QWORD PTR [esi]', 'movhps xmm0, QWORD PTR [esi]',
    'movhps QWORD PTR [esi], xmm0', 'movlpd xmm0, QWORD PTR [esi]', 'movhpd xmm0, QWORD PTR [esi]', 'movhlps xmm0, xmm1', 'movlhps xmm0, xmm1', 'addps xmm0, xmm1', 'addss xmm0, xmm1',
    'addsd xmm0, QWORD PTR [esi]', 'mulps xmm2, xmm3', 'subss xmm0, DWORD PTR [esi]', 'xorps xmm0, xmm1', 'andps xmm0, xmm1', 'shufps xmm1, xmm2, 0x1b', 'unpcklps xmm0, xmm1',
    'unpckhpd xmm0, xmm1', 'cvtsi2sd xmm0, ecx', 'cvtsi2ss xmm0, DWORD PTR [esi]', 'cvttsd2si ecx, xmm0', 'cvtss2si eax, xmm1', 'cvtss2sd xmm0, xmm1', 'cvtps2pd xmm0, xmm1',
    'ucomiss xmm0, xmm1', 'comisd xmm0, xmm1', 'ucomisd xmm0, QWORD PTR [esi]', 'pmovmskb eax, xmm1', 'movmskps eax, xmm0', 'pextrw eax, xmm0, 1', 'pinsrw xmm0, eax, 1',
    'pshufd xmm0, xmm1, 0x1b', 'pshuflw xmm0, xmm1, 0x1b', 'psllw xmm1, 1', 'psrld xmm1, 3', 'pslldq xmm3, 4', 'psrldq xmm1, 4', 'cmpeqsd xmm1, xmm2', 'cmpltps xmm0, xmm1',
    'sqrtsd xmm0, xmm1', 'sqrtps xmm0, xmm1', 'pcmpeqb xmm0, xmm1', 'punpcklqdq xmm1, xmm2', 'punpckhdq xmm0, xmm1', 'packuswb xmm0, xmm1', 'maxps xmm0, xmm1', 'minsd xmm0, xmm1',
    'movntps XMMWORD PTR [esi], xmm1', 'movnti DWORD PTR [esi], eax', 'ldmxcsr DWORD PTR [esi]', 'stmxcsr DWORD PTR [esi]', 'movdq2q mm0, xmm1', 'movq2dq xmm0, mm1',
    'cvtpi2ps xmm0, mm1', 'cvtps2pi mm0, xmm1', 'maskmovq mm0, mm1', 'psadbw xmm0, xmm1', 'pmuludq xmm0, xmm1', 'pavgb mm0, mm1',
]

# segment-register forms: (line, far-pointer operand size or 0).  Their base states hold loadable selectors wherever the form reads one.
SEG_FORMS = [
    'les eax, [esi]', 'les ax, [esi]', 'lds ebx, [esi]', 'lds bx, [esi]', 'lss eax, [esi]', 'lss ax, [esi]', 'lfs eax, [esi]', 'lfs cx, [esi]',
    'lgs edx, [esi]', 'lgs dx, [esi]', 'les eax, [esi+8]', 'les ax, [esi+8]',
    'mov ax, es', 'mov eax, es', 'mov ebx, fs', 'mov cx, gs', 'mov edx, ds', 'mov eax, ss', 'mov eax, cs', 'mov WORD PTR [esi], es', 'mov WORD PTR [esi], fs',
    'mov es, ax', 'mov es, eax', 'mov fs, ax', 'mov gs, ax', 'mov ds, ax', 'mov es, WORD PTR [esi]', 'mov gs, WORD PTR [esi+2]',
    'push es', 'push fs', 'push gs', 'push ds', 'push cs', 'push ss', 'pop es', 'pop fs', 'pop gs', 'pop ds',
]
SEGS = ['es', 'ds', 'fs', 'gs', 'ss']


def dbl80(x):
    """80-bit extended encoding of a small positive/negative number k/2"""
    import math
    if x == 0:
        return bytes(10)
    sign = 0x8000 if x < 0 else 0
    x = abs(x)
    e = math.floor(math.log2(x))
    mant = int(x / (2.0 ** e) * (1 << 63))
    return struct.pack('<QH', mant, (e + 16383) | sign)


def base_fx(k):
    fx = bytearray(cpu.default_fx())
    struct.pack_into('<H', fx, 2, 4 << 11)          # FSW: TOP = 4 -> ST0..ST3 are R4..R7
    fx[4] = 0xF0                                       # abridged tag word: R4..R7 valid
    vals = [1.5 + k, -2.25, 3.0 + 2 * k, 0.5]
    for i, v in enumerate(vals):
        fx[32 + 16 * i:32 + 16 * i + 10] = dbl80(v)
    for i in range(8):
        f = struct.pack('<4f', 1.5 + i + k, -2.0 - i, 0.25 * (i + 1), 100.0 + i)
        fx[160 + 16 * i:160 + 16 * i + 16] = f
    return bytes(fx)


def base_states():
    S = []
    for k in range(3):
        regs = {'eax': [0x11223344, 0x80000001, 0x00000005][k], 'ecx': [3, 0x21, 0x10][k], 'edx': [0x01020304, 0, 0xffffffff][k], 'ebx': [0x0badf00d, 7, 0x80][k],
                'esp': cpu.ESP0, 'ebp': cpu.WIN + 0xa0, 'esi': cpu.WIN + 64, 'edi': cpu.WIN + 160}
        fl = dict(zip(FLG, [(k >> 0) & 1, 0, 1 if k == 1 else 0, 0, (k >> 1) & 1, 0, 0]))
        img = bytearray(((i * 5 + 11 * k + 1) & 0x7f) | (0x01 if i % 4 == 3 else 0) for i in range(256))
        # floats in the memory operand so that x87/SSE forms see ordinary numbers
        img[64:72] = struct.pack('<d', 2.5 + k) if k != 1 else struct.pack('<ff', 1.25, -3.5)
        img[0x80:0x84] = struct.pack('<I', cpu.CODE + 0x900)            # return address for ret / pop
        S.append((regs, fl, bytes(img), base_fx(k)))
    return S


def seg_base_states():
    """base states for SEG_FORMS: eax, the stack slot and both far-pointer layouts at [esi] / [esi+8] hold a loadable selector"""
    S = []
    for k, (regs, fl, img, fx) in enumerate(base_states()):
        regs = dict(regs, eax=0x00070000 + k * 0x10000 + cpu.USER_DS)
        img = bytearray(img)
        for o in (64, 72):
            img[o:o + 6] = struct.pack('<HHH', 0x1234 + k, cpu.USER_DS, cpu.USER_DS)       # m16:16 selector at +2, m16:32 selector at +4
        img[0x80:0x84] = struct.pack('<I', cpu.USER_DS)
        S.append((regs, fl, bytes(img), fx))
    return S


def eflags_of(fl):
    v = 0x202
    for f, b in fl.items():
        v |= b << cpu.FLAGBITS[f]
    return v


def observe(res):
    """location -> value of the observed universe after a run"""
    o = {}
    for r in GPR:
        o[r] = res['regs'][r]
    for f in FLG:
        o[f] = (res['eflags'] >> cpu.FLAGBITS[f]) & 1
    o['mem'] = res['mem']
    fx = res['fx']
    fsw = struct.unpack_from('<H', fx, 2)[0]
    o['float_stack_ptr'] = (fsw >> 11) & 7
    for i, b in enumerate((8, 9, 10, 14)):
        o['float_c%d' % i] = (fsw >> b) & 1
    o['reg_float_control'] = struct.unpack_from('<H', fx, 0)[0]
    tags = fx[4]
    top = (fsw >> 11) & 7
    for i in range(8):
        o['float_st%d' % i] = (fx[32 + 16 * i:32 + 16 * i + 10], (tags >> ((top + i) & 7)) & 1)
        o['mm%d' % ((top + i) & 7)] = fx[32 + 16 * i:32 + 16 * i + 8]
        o['xmm%d' % i] = fx[160 + 16 * i:160 + 16 * i + 16]
    o['eip'] = res['eip']
    for sname in SEGS:
        o[sname] = res['segs'][sname]
    return o


def pre_observe(regs, fl, img, fx, segs=None):
    sg = dict(cpu.SEG_DEFAULT, ds=cpu.USER_DS, ss=cpu.USER_DS)
    sg.update(segs or {})
    return observe({'regs': regs, 'eflags': eflags_of(fl), 'mem': img, 'fx': fx, 'eip': 0, 'segs': sg})


def perturbations(line, regs, fl, img, fx, fpsse):
    """(location, new record pieces) ; two alternative values per location"""
    P = []
    for r in GPR:
        if r == 'esp' or (r in ('esi', 'edi', 'ebp') and ('[' in line or line.split()[0].rstrip('bwd') in ('movs', 'cmps', 'stos', 'lods', 'scas', 'leave', 'enter', 'xlat'))):
            # address registers: move inside the window only
            for d in (4, 8):
                P.append((r, dict(regs={**regs, r: regs[r] + d})))
            continue
        for v in (regs[r] ^ 0x10, regs[r] ^ 0x80000081):
            P.append((r, dict(regs={**regs, r: v})))
    for f in FLG:
        P.append((f, dict(fl={**fl, f: 1 - fl[f]})))
    # memory operand bytes (the 16 bytes at [esi], the stack slot, [edi])
    for off, n in ((64, 16), (160, 4), (regs['esp'] - cpu.WIN, 4)):
        for x in (0x01, 0x80):
            im = bytearray(img)
            for i in range(n):
                im[off + i] ^= x
            P.append(('mem', dict(img=bytes(im))))
    # every single byte of the memory operands in isolation (cell-level read sets)
    for off, n in ((64, 16), (160, 4), (regs['esp'] - cpu.WIN, 4)):
        for i in range(n):
            for x in (0x01, 0x80):
                im = bytearray(img)
                im[off + i] ^= x
                P.append(('membyte:%d' % (off + i), dict(img=bytes(im))))
    # the segment registers a ring-3 process can load with another selector of the same flat segment (RPL 2) / the code segment
    for sname in ('es', 'fs', 'gs'):
        for v in (cpu.USER_DS ^ 1, cpu.USER_CS):
            P.append((sname, dict(segs=dict(cpu.SEG_DEFAULT, **{sname: v}))))
    mmx = bool(re.search(r'\bmm\d', line)) or line.startswith('emms')
    if fpsse and mmx:
        for j in range(8):
            i = (j - 4) & 7                   # TOP = 4 in the base state: physical register j is slot i
            for x in (0x01, 0x80):
                f2 = bytearray(fx)
                for q in range(8):
                    f2[32 + 16 * i + q] ^= x
                P.append(('mm%d' % j, dict(fx=bytes(f2))))
    elif fpsse:
        for i in range(4):
            for v in (7.0 + i, -0.125):
                f2 = bytearray(fx)
                f2[32 + 16 * i:32 + 16 * i + 10] = dbl80(v)
                P.append(('float_st%d' % i, dict(fx=bytes(f2))))
        for i in range(8):
            for x in (0x01, 0x80):
                f2 = bytearray(fx)
                for j in range(16):
                    f2[160 + 16 * i + j] ^= x
                P.append(('xmm%d' % i, dict(fx=bytes(f2))))
        for cw in (0x0f7f, 0x027f):
            f2 = bytearray(fx)
            struct.pack_into('<H', f2, 0, cw)
            P.append(('reg_float_control', dict(fx=bytes(f2))))
    return P


def names_of(exprs, X):
    out = set()
    for e in exprs:
        if isinstance(e, X.ExprMem):
            out.add('mem')
        elif isinstance(e, X.ExprId):
            out.add(e.name)
    return out


def rw_sets(ctx, b):
    ins = ctx['ia32'].x86mnemo.dis(b)
    if ins is None:
        return None
    X = ctx['X']
    lst = ctx['eh'].get_instr_expr(ins, X.ExprInt32(cpu.ENTRY + len(b)), [])
    rd, wr = set(), set()
    for a in lst:
        rd |= names_of(a.get_r(mem_read=True), X)
        # the address of a memory destination is read as well
        if isinstance(a.dst, X.ExprMem):
            rd |= names_of(a.dst.arg.get_r(mem_read=True), X)
        wr |= names_of(a.get_w(), X)
    cells = [(irsem.to_neutral(w.arg), w.size) for a in lst for w in a.get_w() if isinstance(w, X.ExprMem)]
    rcells = [(irsem.to_neutral(r.arg), r.size) for a in lst for r in a.get_r(mem_read=True) if isinstance(r, X.ExprMem)]
    return rd, wr, ins.m.name, cells, rcells


def written_cells(cells, regs, fl, img):
    """byte addresses covered by the memory destinations of get_w(), evaluated in the base state (None if not evaluable)"""
    ids = dict(regs)
    for f in FLG:
        ids[f] = fl[f]
    for sname in ('cs', 'ds', 'es', 'ss', 'fs', 'gs', 'dr7', 'cr0', 'tf', 'i_f', 'nt', 'rf', 'vm', 'ac', 'vif', 'vip', 'i_d', 'iopl_f'):
        ids[sname] = 0
    ids['eip'] = cpu.ENTRY
    env = irsem.Env(ids, {cpu.WIN + i: img[i] for i in range(256)}, 0)
    cov = set()
    for ad, size in cells:
        try:
            a = irsem.ev_int(ad, env) & 0xffffffff
        except Exception:
            return None
        for i in range(size // 8):
            cov.add((a + i) & 0xffffffff)
    return cov


def form_case(ctx, part, line, b, fpsse, tier, seg=False):
    try:
        with core.quiet_stdout():
            rw = rw_sets(ctx, b)
    except Exception as ex:
        part.skip('lifting raises (C11)')
        return
    if rw is None:
        part.skip('not decoded')
        return
    rd, wr, mname, cells, rcells = rw
    mn = line.split()[0]
    mnc = re.sub(r'^(set|cmov|j|fcmov)(o|no|b|ae|e|ne|be|a|s|ns|p|np|l|ge|le|g|nb|nbe|u|nu)$', r'\1cc', mn)
    sigbase = '%s/%s' % (mnc, c04.opform(line))
    missing_r, missing_w = {}, {}
    for regs, fl, img, fx in (seg_base_states() if seg else base_states()):
        recs = [dict(code=b, regs=regs, eflags=eflags_of(fl), mem=img, fx=fx)]
        P = perturbations(line, regs, fl, img, fx, fpsse)
        for loc, ch in P:
            recs.append(dict(code=b, regs=ch.get('regs', regs), eflags=eflags_of(ch.get('fl', fl)), mem=ch.get('img', img), fx=ch.get('fx', fx), segs=ch.get('segs')))
        res = cpu.run_batch(recs)
        part.n += len(recs)
        if res[0]['sig'] != cpu.SIGTRAP:
            part.skips['processor faults on the base state'] += 1
            continue
        pre0 = pre_observe(regs, fl, img, fx)
        post0 = observe(res[0])
        written0 = {k for k in post0 if k != 'eip' and post0[k] != pre0[k]}
        und = c04.undefined(mn, line, fl, regs, None) if not fpsse else set()
        if 'dst-if-zero' in und and post0['zf'] == 1:
            # bsf/bsr with a zero source: the destination is undefined (Intel) / unchanged (AMD, and what this processor does)
            d0 = line.split()[1].strip(',')
            und = set(und) | {c04.SUB.get(d0, d0)}
        mmx = bool(re.search(r'\bmm\d', line)) or line.startswith('emms')
        # x87 <-> MMX aliasing is outside the observed universe: MMX forms are observed through mm*, x87 forms through float_*
        hidden = (lambda k: k.startswith('float_') or k == 'reg_float_control') if mmx else (lambda k: bool(re.match(r'mm\d', k)))
        und = set(und) | {k for k in post0 if hidden(k)}
        for k in written0:
            if k in und or ('dst' in und) or k.startswith('mm') and not fpsse:
                continue
            name = 'nf' if k == 'nf' else k
            if name not in wr:
                missing_w.setdefault(k if not re.match(r'(float_st|mm|xmm)\d', k) else re.sub(r'\d', 'N', k), 'base state: %s changes (%s -> %s) but get_w() = %s' % (
                    k, str(pre0[k])[:40], str(post0[k])[:40], sorted(wr)))
        # cell level: every byte of the data window the processor changed lies inside a memory destination of get_w()
        changed = [i for i in range(256) if res[0]['mem'][i] != img[i]]
        if changed and 'dst' not in und and not fpsse:
            cov = written_cells(cells, regs, fl, img)
            if cov is not None:
                out = [i for i in changed if (cpu.WIN + i) not in cov]
                if out:
                    missing_w.setdefault('mem-cell', 'base state: the processor changes the byte at window+%d (%#x) but the memory destinations of get_w() cover %s' % (
                        out[0], cpu.WIN + out[0], sorted(hex(x) for x in cov)[:8]))
        rcov = None
        for (loc, ch), r1 in zip(P, res[1:]):
            if r1['sig'] != cpu.SIGTRAP:
                if not seg:
                    continue
                # segment forms: whether the selector is loadable is a result of the instruction (the base run completes,
                # the perturbed one raises #GP/#SS/#NP): the perturbed location decides it
                diff = ['fault']
                post1 = None
            else:
                pre1 = pre_observe(ch.get('regs', regs), ch.get('fl', fl), ch.get('img', img), ch.get('fx', fx), ch.get('segs'))
                post1 = observe(r1)
                written = written0 | {k for k in post1 if k != 'eip' and post1[k] != pre1[k]}
                if not fpsse:
                    # a location the lifted semantics claim to write is an output even where the processor leaves it alone: if its
                    # final value follows its own initial value (a write that does not happen for this count / condition), the
                    # initial value is a real input of the claimed write
                    written = written | {k for k in post1 if k in wr}
                diff = [k for k in written if post0[k] != post1[k] and k not in und]
                if post0['eip'] != post1['eip']:
                    diff.append('eip')
            byte = None
            if loc.startswith('membyte:'):
                byte = int(loc.split(':')[1])
                loc = 'mem'
            if loc == 'mem' and post1 is not None:
                # the perturbed bytes themselves are not an output unless the instruction writes them
                diff = [k for k in diff if k != 'mem' or any(post0['mem'][i] != post1['mem'][i] and (pre0['mem'][i] == pre1['mem'][i]) for i in range(256))
                        or any(post0['mem'][i] != post1['mem'][i] and post0['mem'][i] != pre0['mem'][i] for i in range(256))]
            if 'dst' in und or not diff:
                continue
            loc_names = {loc}
            if not (loc_names & rd):
                lk = re.sub(r'\d', 'N', loc) if re.match(r'(float_st|mm|xmm)\d', loc) else loc
                missing_r.setdefault(lk, 'perturbing %s changes %s on the processor but get_r(mem_read=True) = %s' % (loc, sorted(diff)[:4], sorted(rd)))
            elif byte is not None:
                # cell level: a byte whose value alone changes a result lies inside a memory cell of get_r(mem_read=True)
                if rcov is None:
                    rcov = written_cells(rcells, regs, fl, img) or False
                if rcov is not False and (cpu.WIN + byte) not in rcov:
                    missing_r.setdefault('mem-cell', 'perturbing the byte at window+%d (%#x) alone changes %s on the processor but the memory cells of get_r(mem_read=True) cover %s' % (
                        byte, cpu.WIN + byte, sorted(diff)[:4], sorted(hex(x) for x in rcov)[:12]))
    if not missing_r and not missing_w:
        part.keys.add(core.h64(line))
        if len(part.samples) < 3:
            part.samples.append({'form': line, 'bytes': b.hex(), 'get_r': sorted(rd), 'get_w': sorted(wr)})
        part.outcomes.add(core.h64((tuple(sorted(rd)), tuple(sorted(wr)))))
    for k, d in missing_r.items():
        part.violation('%s missing-read=%s' % (sigbase, k), '%s (%s): %s' % (line, b.hex(), d), {'line': line, 'bytes': b.hex(), 'fpsse': fpsse, 'seg': seg})
    for k, d in missing_w.items():
        part.violation('%s missing-write=%s' % (sigbase, k), '%s (%s): %s' % (line, b.hex(), d), {'line': line, 'bytes': b.hex(), 'fpsse': fpsse, 'seg': seg})


def count_key(line):
    """quick tier: shifts and rotates by an immediate keep one representative per class of the masked count"""
    m = re.match(r'(shl|sal|shr|sar|rol|ror|rcl|rcr|shld|shrd) .*, (\d+)$', line)
    if not m:
        return ''
    c = int(m.group(2))
    return 'c=0' if c == 0 else 'c=32k' if c & 31 == 0 else 'c=1' if c & 31 == 1 else 'c=n'


def all_forms(tier):
    F = []
    seen = set()
    for line, kind in c04.forms(tier):
        # one representative per (mnemonic, operand form) for the integer core; all counts for shifts collapse
        key = (line.split()[0], c04.opform(line), re.sub(r'\d+', 'N', line) if tier == 'thorough' else count_key(line))
        if key in seen:
            continue
        seen.add(key)
        F.append((line, False))
    for line in FP_FORMS + SSE_FORMS:
        F.append((line, True))
    for line in SEG_FORMS:
        F.append((line, 'seg'))
    return F


def shard(s, ns, tier, seed):
    ctx = c04.make_ctx()
    part = core.Part()
    F = all_forms(tier)
    mine = [f for i, f in enumerate(F) if i % ns == s]
    enc = R.gas_batch([f[0] for f in mine], 'intel')
    for (line, fpsse), b in zip(mine, enc):
        if b is None:
            part.skip('form rejected by GNU as')
            continue
        form_case(ctx, part, line, b, fpsse is True, tier, seg=(fpsse == 'seg'))
    return part


def run(tier, seed):
    t0 = time.time()
    core.import_x86()
    cpu.ensure_runner()
    cpu.selftest()
    part = core.run_sharded(shard, (tier, seed), nshards=core.NPROC * 6)
    F = all_forms(tier)
    rule = ('case = (instruction form, base state, perturbed location): %d forms (integer core of C04 by mnemonic x operand form; %d x87 forms; %d MMX/SSE '
            'forms) x 3 base states x every location of the universe (8 GPRs, CF PF AF ZF SF OF DF, the memory operand / stack slot bytes, ST0-3, XMM0-7, '
            'x87 control word) x 2 alternative values, all executed on the host CPU. A location is a real read iff an output that is written differs between '
            'the base and the perturbed run (or the landing address differs); it must then be in the union of get_r(mem_read=True) (plus the address of '
            'memory destinations). A location whose value changes in the base run must be in the union of get_w(). Sub-registers map to their 32-bit '
            'register; x87/MMX aliasing, FIP/FDP/FOP and MXCSR are outside the observed universe. evaluations = CPU executions; distinct = forms with '
            'no omission' % (len(F), len(FP_FORMS), len(SSE_FORMS)))
    return core.finish('C08', tier, seed, t0, part, rule, exhaustive=True, space={'forms': len(F)},
                       assumptions=['the host CPU decides real dependencies; undefined results (SDM table of C04) are not outputs', 'over-approximation is allowed'])


def replay(w):
    ctx = c04.make_ctx()
    part = core.Part()
    form_case(ctx, part, w['line'], bytes.fromhex(w['bytes']), w['fpsse'], 'quick', seg=w.get('seg', False))
    if part.viols:
        return True, '\n'.join('%s: %s' % (k, v[1]) for k, v in part.viols.items())
    return False, 'ok'
