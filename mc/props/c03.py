"""C03 - assemble/disassemble round trip is a fixpoint.
(a) every accepted line of L_asm (generator of C02) x every candidate b: dis(b) accepts, consumes len(b) bytes, and
    b is among asm(str(dis(b))).
(b) every string of S_x86 that miasmX decodes and that is canonical (GNU as applied to objdump's AT&T text of the
    string returns the string): b is among asm(str(dis(b)))."""
import time, sys
from .. import core, x86space as S, x86ref as R, asmgen as G
from ..asmcorpus import CORPUS_INTEL
from . import c01, c02

NEEDS_X86 = True


def roundtrip(ia32, b):
    """None if b -> text -> candidates contains b, else (step, detail, text)"""
    try:
        i = ia32.x86mnemo.dis(b)
    except Exception as ex:
        return ('dis-raises:%s' % type(ex).__name__, repr(ex)[:80], None)
    if i is None:
        return ('dis-none', 'dis(%s) is None' % b.hex(), None)
    if i.l != len(b):
        return ('length', 'dis(%s).l = %d, candidate has %d bytes' % (b.hex(), i.l, len(b)), None)
    try:
        t = str(i)
    except Exception as ex:
        return ('render-raises:%s' % type(ex).__name__, repr(ex)[:80], None)
    try:
        with core.watchdog(5):
            c = ia32.x86mnemo.asm(t)
    except Exception as ex:
        return ('reparse-raises:%s' % type(ex).__name__, 'asm(%r) raises %r' % (t, ex), t)
    if b not in [bytes(x) for x in c]:
        return ('not-in-candidates', 'asm(%r) = %s does not contain %s' % (t.strip(), [bytes(x).hex() for x in c][:6], b.hex()), t)
    return None


def shard_a(s, ns, tier, seed):
    ia32 = core.import_x86()
    part = core.Part()
    vocab = G.vocabulary(ia32)
    seen = set()

    def do(line, kd, mnem):
        try:
            with core.watchdog(5):
                c = ia32.x86mnemo.asm(line)
        except Exception:
            part.skip('asm raises (C10)')
            return
        if not c:
            part.skip('rejected by asm')
            return
        for b in c:
            b = bytes(b)
            if b in seen:
                part.n += 1
                continue
            seen.add(b)
            r = roundtrip(ia32, b)
            if r is None:
                part.ok(core.h64(b), sample={'line': line, 'candidate': b.hex()} if len(part.samples) < 2 else None)
            else:
                part.n += 1
                if r[2]:
                    # name the site by what the candidate decodes to (stable whatever line produced it first)
                    try:
                        mnem = R.parse_intel(r[2], source='mx')[0].mnemo
                    except R.Unparsable:
                        mnem = r[2].split()[0]
                    kd = c02.kinds_of_line(r[2])
                part.violation('dir=asm->dis->asm mnemo=%s ops=%s step=%s' % (mnem, kd, r[0]), 'line %r, candidate %s: %s' % (line, b.hex(), r[1]),
                               {'line': line, 'bytes': b.hex()}, size=len(line))
    with core.quiet_stdout():
        for i, spec in enumerate(G.specs(vocab, tier)):
            if (i // 512) % ns != s:
                continue
            do(G.render_intel(spec), G.kinds(spec), R.canon_mnemo(spec[0]))
        if s == 0:
            for line in CORPUS_INTEL:
                do(line, c02.kinds_of_line(line), line.split()[0])
    return part


def shard_b(s, ns, tier, seed):
    ia32 = core.import_x86()
    part = core.Part()
    U = S.units(tier)
    mine = list(range(s, len(U), ns))
    for c0 in range(0, len(mine), c01.CHUNK_UNITS):
        cases = []
        for ui in mine[c0:c0 + c01.CHUNK_UNITS]:
            cases += list(S.cases_of(U[ui], tier))
        with core.quiet_stdout():
            mxs = c01.decode_all(ia32, cases)
        keep = [(b, meta, mx) for (b, meta), mx in zip(cases, mxs) if mx is not None and mx[0] != 'EXC']
        part.n += len(cases) - len(keep)
        part.skips['miasmx rejects or raises'] += len(cases) - len(keep)
        # distinct decoded prefixes only
        uniq = {}
        for b, meta, mx in keep:
            uniq.setdefault(b[:mx[0]], (meta, mx))
        keys = list(uniq)
        # no meaning-free prefix: the reference decoder must not report a superfluous prefix (same filter as C01)
        inte = R.objdump_batch(keys)
        keep2 = []
        for k, od in zip(keys, inte):
            if od is None or od[1] is None or '(bad)' in od[1] or od[1].startswith('.'):
                continue
            try:
                nfo, _ = R.parse_intel(od[1], addr=0, length=od[0], source='od')
            except R.Unparsable:
                continue
            if R.has_superfluous_prefix(nfo, uniq[k][0][0], od[1]):
                continue
            keep2.append(k)
        part.skips['reference rejects / superfluous prefix'] += len(keys) - len(keep2)
        part.n += len(keys) - len(keep2)
        keys = keep2
        att = R.objdump_batch(keys, syntax='att')
        lines, idxs = [], []
        for j, (k, od) in enumerate(zip(keys, att)):
            if od is None or od[1] is None or od[0] != len(k) or '(bad)' in od[1] or od[1].startswith('.'):
                continue
            t = od[1]
            if '<' in t:
                t = t.split('<')[0]
            w0 = t.split()
            if w0 and R.BRANCH.match(R.canon_mnemo(w0[0].rstrip('wl'))) and len(w0) > 1 and not any(ch in w0[-1] for ch in '*%('):
                continue          # direct branch: objdump prints an absolute target that depends on the slot address
            lines.append(t)
            idxs.append(j)
        enc = R.gas_batch(lines, 'att') if lines else []
        canonical = set()
        for j, e in zip(idxs, enc):
            if e is not None and e == keys[j]:
                canonical.add(j)
        part.skips['not canonical (reference assembler does not reproduce the bytes)'] += len(keys) - len(canonical)
        part.n += len(keys) - len(canonical)
        with core.quiet_stdout():
            for j in sorted(canonical):
                k = keys[j]
                meta, mx = uniq[k]
                r = roundtrip(ia32, k)
                if r is None:
                    part.ok(core.h64(k), outcome=mx[2].split()[0], sample={'canonical bytes': k.hex(), 'rendering': mx[2].strip()} if len(part.samples) < 3 else None)
                else:
                    part.n += 1
                    part.violation('dir=dis->asm %s step=%s' % (S.site(meta), r[0]), '%s (%s): %s' % (k.hex(), mx[2].strip(), r[1]),
                                   {'bytes': k.hex()}, size=len(meta[0]) * 1000 + meta[3])
    return part


def run(tier, seed):
    t0 = time.time()
    core.import_x86()
    part = core.run_sharded(shard_a, (tier, seed), nshards=core.NPROC * 8)
    part.counters['candidates_round_tripped'] = len(part.keys)
    pb = core.run_sharded(shard_b, (tier, seed), nshards=core.NPROC * 6)
    part.counters['canonical_strings_round_tripped'] = len(pb.keys)
    part.merge(pb)
    rule = ('(a) every line of L_asm that asm accepts (vocabulary x operand-shape alphabet, arity 0..2, + corpus) x every distinct candidate b: '
            'dis(b) is an instruction of length len(b) and b is in asm(str(dis(b))). (b) every string of S_x86 that miasmX decodes, de-duplicated by '
            'decoded prefix, that is canonical = GNU as (AT&T mode) applied to objdump\'s AT&T text of the prefix returns exactly the prefix: the prefix '
            'must be in asm(str(dis(prefix))). distinct = distinct byte strings')
    return core.finish('C03', tier, seed, t0, part, rule, exhaustive=True, space={'work_units': len(S.units(tier))},
                       assumptions=['GNU as/objdump decide "canonical"; undecidable strings are treated as non-canonical (only shrinks coverage)'])


def replay(w):
    ia32 = core.import_x86()
    with core.quiet_stdout():
        r = roundtrip(ia32, bytes.fromhex(w['bytes']))
    if r:
        return True, '%s: %s' % (r[0], r[1])
    return False, 'ok'
