"""C02 - every assembler candidate encodes exactly the requested instruction.
Lines are rendered from structured specs (whole vocabulary x operand-shape alphabet, arity 0..2, plus the
hand-written corpus for 3-operand forms); EVERY candidate of asm(line) is decoded by GNU objdump and its normal
form compared with the one the spec denotes; GNU as adjudicates spelling conventions.  The AT&T direction uses
binutils' own transliteration (objdump -M att of the GNU as encoding) fed to asm_att."""
import time, sys
from .. import core, x86ref as R, asmgen as G
from ..asmcorpus import CORPUS_INTEL

NEEDS_X86 = True
CHUNK = 4000


def decode_cands(cands):
    """objdump every candidate: list of (length, text)"""
    if not cands:
        return []
    out = []
    for i in range(0, len(cands), 50000):
        out += R.objdump_batch([c[:15] for c in cands[i:i + 50000]])
    return out


def nf_of(od, idx=0):
    if od is None or od[1] is None:
        return None
    l, t = od
    if '(bad)' in t or t.startswith('.'):
        return None
    try:
        nf, imp16 = R.parse_intel(t, addr=idx * R.SLOT, length=l, source='od')
    except R.Unparsable:
        return None
    return nf


def judge_candidate(b, od, idx, ref_nfs):
    """ref_nfs: acceptable normal forms (spec, GNU as).  returns None if ok else (field, detail)"""
    if od is None or od[1] is None or '(bad)' in od[1] or od[1].startswith('.'):
        return ('not-an-instruction', 'reference decoder rejects %s (%s)' % (b.hex(), od[1] if od else None))
    if od[0] != len(b):
        return ('length', 'candidate %s has %d bytes, the reference decoder reads %d (%s)' % (b.hex(), len(b), od[0], od[1]))
    try:
        nf, _ = R.parse_intel(od[1], addr=idx * R.SLOT, length=od[0], source='od')
    except R.Unparsable as ex:
        return None
    first = None
    for ref in ref_nfs:
        if ref is None:
            continue
        f = R.compare_nf(nf, ref)
        if f is None:
            return None
        if first is None:
            first = f
    if first is None:
        return None
    return (first, 'candidate %s decodes as "%s"' % (b.hex(), od[1]))


def imm_same(v, d, opw):
    """the number v written in the line and the decoded immediate d denote the same operand: equal modulo the operand
    width, or equal modulo an 8/16-bit field in which v is representable (signed or unsigned); v may be written in the
    32-bit unsigned convention"""
    for c in [v] + ([v - (1 << 32)] if (1 << 31) <= v < (1 << 32) else []):
        if (c - d) % (1 << opw) == 0 and -(1 << (opw - 1)) <= c < (1 << opw):
            return True
        if -128 <= c <= 255 and (c - d) % 256 == 0:
            return True
        if -32768 <= c <= 65535 and (c - d) % 65536 == 0:
            return True
    return False


def process(part, ia32, items, syntax_att=True):
    """items: list of (spec or None, line, kinds)"""
    asm, asm_att = ia32.x86mnemo.asm, ia32.x86mnemo.asm_att
    acc = []
    with core.quiet_stdout():
        for spec, line, kd in items:
            try:
                with core.watchdog(5):
                    c = asm(line)
            except Exception:
                part.skip('asm raises (C10)')
                continue
            if not c:
                part.skip('rejected by asm')
                continue
            acc.append((spec, line, kd, [bytes(x) for x in c]))
    if not acc:
        return
    part.counters['accepted_intel_lines'] += len(acc)
    gas = R.gas_batch([a[1] for a in acc], 'intel')
    gas_od = decode_cands([g if g else b'\x90' for g in gas])
    gas_att = R.objdump_batch([g if g else b'\x90' for g in gas], syntax='att')
    flat, owner = [], []
    for i, a in enumerate(acc):
        for b in a[3]:
            flat.append(b)
            owner.append(i)
    ods = decode_cands(flat)
    for j, (b, od) in enumerate(zip(flat, ods)):
        i = owner[j]
        spec, line, kd, cands = acc[i]
        refs = []
        try:
            refs.append(G.spec_nf(spec) if spec is not None else R.parse_intel(line, source='spec')[0])
        except R.Unparsable:
            pass
        g = gas[i]
        gnf = nf_of(gas_od[i], i) if g else None
        if gnf is not None and gas_od[i][0] == len(g):
            refs.append(gnf)
        if not refs:
            part.skip('no reference denotation')
            continue
        has_sym = spec is not None and any(o[0] == 'sym' for o in spec[1])
        if has_sym:
            refs = refs[:1]          # GNU as reads a bare symbol as a memory reference; the spec (OFFSET) is the denotation
        r = judge_candidate(b, od, j, refs)
        if r is None and spec is not None and len(refs) > 1 and any(o[0] == 'imm' for o in spec[1]):
            # the VALUE of an immediate is what the line says: GNU as silently shortening a number that does not fit
            # (ret 65536 -> c2 00 00, with a warning) is not a second denotation
            try:
                nfc = R.parse_intel(od[1], addr=j * R.SLOT, length=od[0], source='od')[0]
                sp = refs[0]
                if len(nfc.ops) == len(sp.ops):
                    opw = R.opsize_of(nfc) or R.opsize_of(sp) or 32
                    for k_, (x, y) in enumerate(zip(sp.ops, nfc.ops)):
                        if x[0] == 'imm' and y[0] == 'imm' and not imm_same(x[1], y[1], opw if opw in (8, 16, 32) else 32):
                            r = ('op%d.imm-truncated' % k_, 'candidate %s decodes as "%s": the number %d of the line does not fit the field and was cut' % (b.hex(), od[1], x[1]))
            except R.Unparsable:
                pass
        if r is not None and has_sym and (r[0].endswith('.rel') or 'kind(mem/imm)' in r[0]):
            r = None                 # branch to a symbol: the displacement is a relocation
        mn = refs[0].mnemo
        if r is None:
            part.ok(core.h64(('i', line, b)), outcome=(mn, kd), sample={'line': line, 'candidate': b.hex(), 'objdump': od[1]} if len(part.samples) < 2 else None)
        else:
            part.n += 1
            sig = 'syntax=intel mnemo=%s ops=%s field=%s gas=%s' % (mn, kd, r[0], 'accepts' if g else 'rejects')
            part.violation(sig, 'asm(%r) candidate %d/%d: %s' % (line, cands.index(b) + 1, len(cands), r[1]),
                           {'line': line, 'syntax': 'intel', 'candidate': b.hex()}, size=len(line) + 100 * cands.index(b))
    if not syntax_att:
        return
    # AT&T: binutils' transliteration of the GNU as encoding
    att_items = []
    for i, a in enumerate(acc):
        g = gas[i]
        if not g or gas_att[i] is None or gas_att[i][1] is None or gas_att[i][0] != len(g):
            continue
        t = gas_att[i][1]
        if '(bad)' in t or '<' in t:
            continue
        if any(o[0] == 'rel' for o in (nf_of(gas_od[i], i).ops if nf_of(gas_od[i], i) else ())):
            continue            # absolute branch targets depend on the slot address
        att_items.append((i, t))
    flat, owner, lines = [], [], []
    with core.quiet_stdout():
        for i, t in att_items:
            try:
                with core.watchdog(5):
                    c = asm_att(t)
            except Exception:
                part.skip('asm_att raises (C10)')
                continue
            if not c:
                part.skip('rejected by asm_att')
                continue
            part.counters['accepted_att_lines'] += 1
            for b in c:
                flat.append(bytes(b))
                owner.append(i)
                lines.append(t)
    ods = decode_cands(flat)
    for j, (b, od) in enumerate(zip(flat, ods)):
        i = owner[j]
        gnf = nf_of(gas_od[i], i)
        r = judge_candidate(b, od, j, [gnf])
        kd = kinds_of_nf(gnf)       # named by what the AT&T line denotes: several Intel specs transliterate to the same AT&T line
        if r is None:
            part.ok(core.h64(('a', lines[j], b)), outcome=(gnf.mnemo, kd, 'att'))
        else:
            part.n += 1
            sig = 'syntax=att mnemo=%s ops=%s field=%s' % (gnf.mnemo, kd, r[0])
            part.violation(sig, 'asm_att(%r): %s' % (lines[j], r[1]), {'line': lines[j], 'syntax': 'att', 'candidate': b.hex()}, size=len(lines[j]))


def kinds_of_line(line):
    try:
        nf, _ = R.parse_intel(line, source='spec')
    except R.Unparsable:
        return '?'
    return kinds_of_nf(nf)


def kinds_of_nf(nf):
    ks = []
    for o in nf.ops:
        if o[0] == 'reg':
            ks.append(R.regclass(o[1]))
        elif o[0] == 'mem':
            ks.append('m%s' % (o[1] or ''))
        else:
            ks.append(o[0])
    return ','.join(ks)


def shard(s, ns, tier, seed):
    ia32 = core.import_x86()
    part = core.Part()
    vocab = G.vocabulary(ia32)
    items = []
    for i, spec in enumerate(G.specs(vocab, tier)):
        if (i // 512) % ns != s:
            continue
        items.append((spec, G.render_intel(spec), G.kinds(spec)))
        if len(items) >= CHUNK:
            process(part, ia32, items)
            items = []
    if s == 0:
        for line in CORPUS_INTEL:
            if any(ch in line for ch in ('.L', 'toto', 'foo', 'OFFSET', 'A[')):
                continue
            items.append((None, line, kinds_of_line(line)))
    if items:
        process(part, ia32, items)
    return part


def run(tier, seed):
    t0 = time.time()
    ia32 = core.import_x86()
    vocab = G.vocabulary(ia32)
    part = core.run_sharded(shard, (tier, seed), nshards=core.NPROC * 8)
    part.counters['vocabulary'] = len(vocab)
    rule = ('case = (line, candidate): lines rendered from specs = vocabulary (%d mnemonics from the assembler table expanded through the suffix scheme + '
            'synonyms/pseudo-ops) x operand-shape alphabet (registers of every file, memory with every size keyword x 14 address forms, boundary '
            'immediates -129..2^32-1, symbol) for arity 0, 1 (full alphabet) and 2 (reduced alphabet, full product), plus the corpus (3-operand forms); '
            'ALL candidates of asm(line) are decoded by objdump: one instruction of the candidate\'s length whose normal form equals the spec\'s or that '
            'of GNU as for the same line (immediates/displacements modulo the operand width after sign extension). AT&T: objdump -M att of the GNU as '
            'encoding is fed to asm_att and every candidate compared with the same normal form. non-trivial = line accepted by miasmX; '
            'distinct = distinct (line, candidate) pairs' % len(vocab))
    return core.finish('C02', tier, seed, t0, part, rule, exhaustive=True, space={'vocabulary': len(vocab)},
                       assumptions=['GNU objdump / GNU as 2.40 as references', 'lines on which asm raises are C10 violations and skipped here'])


def replay(w):
    ia32 = core.import_x86()
    part = core.Part()
    if w['syntax'] == 'intel':
        process(part, ia32, [(None, w['line'], kinds_of_line(w['line']))], syntax_att=False)
    else:
        with core.quiet_stdout():
            c = ia32.x86mnemo.asm_att(w['line'])
        return True, 'asm_att(%r) = %s (compare with: as --32; objdump -d)' % (w['line'], [bytes(x).hex() for x in c])
    if part.viols:
        return True, '\n'.join('%s: %s' % (k, v[1]) for k, v in part.viols.items())
    return False, 'ok'
