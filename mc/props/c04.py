"""C04 - lifted x86 semantics match the processor on the integer core.
Forms (mnemonic x size x operand form x count / condition code) are encoded by GNU as; for each form the full product
of a boundary-value alphabet over its input locations (x the status flags it reads) is executed on the host CPU by the
native runner and, in parallel, by evaluating the lifted assignment list (get_instr_expr) under irsem with all
assignments reading the pre-state.  Registers, defined status flags + DF, the data window and the control-flow outcome are
compared; results the architecture leaves undefined are masked."""
import time, sys, itertools, re
from .. import core, irsem, cpu, x86ref as R

NEEDS_X86 = True
V32 = [0, 1, 2, 0x7f, 0x80, 0xff, 0x100, 0x7fff, 0x8000, 0xffff, 0x10000, 0x7fffffff, 0x80000000, 0x80000001, 0xfffffffe, 0xffffffff,
       0x12345678, 0xdeadbeef]
VSMALL = [0, 1, 0x80, 0xff, 0x8000, 0xffffffff, 0x12345678]
COUNTS = [0, 1, 2, 7, 8, 9, 15, 16, 17, 31, 32, 33, 255]
CC = ['o', 'no', 'b', 'ae', 'e', 'ne', 'be', 'a', 's', 'ns', 'p', 'np', 'l', 'ge', 'le', 'g']
FLAGS = ['cf', 'pf', 'af', 'zf', 'nf', 'of']
SUB = {'al': 'eax', 'ah': 'eax', 'ax': 'eax', 'bl': 'ebx', 'bh': 'ebx', 'bx': 'ebx', 'cl': 'ecx', 'ch': 'ecx', 'cx': 'ecx', 'dl': 'edx', 'dh': 'edx', 'dx': 'edx',
       'si': 'esi', 'di': 'edi', 'bp': 'ebp', 'sp': 'esp'}
GPR = cpu.REGS


def forms(tier):
    """(line, kind) ; kind selects state generation"""
    F = []
    alu = ['add', 'adc', 'sub', 'sbb', 'cmp', 'and', 'or', 'xor', 'test']
    for m in alu:
        F += [('%s eax, ebx' % m, 'rr'), ('%s al, bl' % m, 'rr'), ('%s ax, bx' % m, 'rr'), ('%s ah, bh' % m, 'rr'), ('%s eax, eax' % m, 'rr'),
              ('%s DWORD PTR [esi], ebx' % m, 'mr'), ('%s BYTE PTR [esi], bl' % m, 'mr'), ('%s WORD PTR [esi], bx' % m, 'mr')]
        if m != 'test':
            F += [('%s eax, DWORD PTR [esi]' % m, 'rm'), ('%s bl, BYTE PTR [esi]' % m, 'rm')]
        for imm in (0, 1, 0x7f, 0x80, -1, -128, 0x12345678, 0x7fffffff, 0x80000000):
            F.append(('%s ebx, %d' % (m, imm), 'r'))
        for imm in (0, 1, 0x7f, 0x80, 0xff):
            F.append(('%s bl, %d' % (m, imm), 'r'))
            F.append(('%s bx, %d' % (m, imm * 0x101), 'r'))
        F.append(('%s DWORD PTR [esi], 5' % m, 'm'))
        F.append(('%s BYTE PTR [esi], -3' % m, 'm'))
    for m in ['inc', 'dec', 'neg', 'not']:
        F += [('%s eax' % m, 'r'), ('%s bl' % m, 'r'), ('%s bh' % m, 'r'), ('%s cx' % m, 'r'), ('%s DWORD PTR [esi]' % m, 'm'), ('%s BYTE PTR [esi]' % m, 'm'), ('%s WORD PTR [esi]' % m, 'm')]
    for m in ['shl', 'sal', 'shr', 'sar', 'rol', 'ror', 'rcl', 'rcr']:
        for c in COUNTS:
            F += [('%s eax, %d' % (m, c), 'r'), ('%s bl, %d' % (m, c), 'r'), ('%s bx, %d' % (m, c), 'r')]
        F += [('%s eax, cl' % m, 'rc'), ('%s bl, cl' % m, 'rc'), ('%s bx, cl' % m, 'rc'), ('%s DWORD PTR [esi], cl' % m, 'mc'), ('%s BYTE PTR [esi], 1' % m, 'm'),
              ('%s eax, 1' % m, 'r'), ('%s DWORD PTR [esi], 3' % m, 'm')]
    for m in ['shld', 'shrd']:
        for c in (0, 1, 4, 8, 15, 16, 17, 31, 32, 33):
            F += [('%s eax, ebx, %d' % (m, c), 'rr'), ('%s ax, bx, %d' % (m, c), 'rr')]
        F += [('%s eax, ebx, cl' % m, 'rrc'), ('%s DWORD PTR [esi], ebx, 3' % m, 'mr'), ('%s ax, bx, cl' % m, 'rrc')]
    for m in ['mul', 'imul', 'div', 'idiv']:
        F += [('%s ebx' % m, 'ax-r'), ('%s bl' % m, 'ax-r'), ('%s bx' % m, 'ax-r'), ('%s DWORD PTR [esi]' % m, 'ax-m'), ('%s BYTE PTR [esi]' % m, 'ax-m'), ('%s ecx' % m, 'ax-r')]
    F += [('imul eax, ebx', 'rr'), ('imul ax, bx', 'rr'), ('imul eax, DWORD PTR [esi]', 'rm'), ('imul eax, ebx, 7', 'rr'), ('imul eax, ebx, -3', 'rr'),
          ('imul eax, ebx, 0x12345', 'rr'), ('imul ax, bx, 300', 'rr'), ('imul eax, DWORD PTR [esi], 100', 'rm')]
    for m in ['bt', 'bts', 'btr', 'btc']:
        F += [('%s eax, ebx' % m, 'rr'), ('%s ax, bx' % m, 'rr')]
        for c in (0, 1, 7, 15, 16, 31, 32, 33, 255):
            F.append(('%s eax, %d' % (m, c), 'r'))
        F.append(('%s DWORD PTR [esi], 5' % m, 'm'))
    F += [('bsf eax, ebx', 'rr'), ('bsr eax, ebx', 'rr'), ('bsf ax, bx', 'rr'), ('bsr eax, DWORD PTR [esi]', 'rm')]
    for m in ['movzx', 'movsx']:
        F += [('%s eax, bl' % m, 'rr'), ('%s eax, bh' % m, 'rr'), ('%s eax, bx' % m, 'rr'), ('%s ax, bl' % m, 'rr'), ('%s eax, BYTE PTR [esi]' % m, 'rm'),
              ('%s eax, WORD PTR [esi]' % m, 'rm'), ('%s cx, BYTE PTR [esi]' % m, 'rm')]
    F += [('mov eax, ebx', 'rr'), ('mov al, bh', 'rr'), ('mov ah, bl', 'rr'), ('mov ax, bx', 'rr'), ('mov eax, 0x12345678', 'r'), ('mov bh, 0x7f', 'r'), ('mov cx, 0x8001', 'r'),
          ('mov eax, DWORD PTR [esi]', 'rm'), ('mov DWORD PTR [esi], ebx', 'mr'), ('mov BYTE PTR [esi+1], bl', 'mr'), ('mov WORD PTR [esi+2], bx', 'mr'),
          ('mov bl, BYTE PTR [esi+3]', 'rm'), ('mov DWORD PTR [esi], 0x11223344', 'm'), ('mov BYTE PTR [esi], 0x80', 'm'), ('mov eax, DWORD PTR [esi+edi*4+8]', 'rm'),
          ('lea eax, [ebx+ecx*4+0x12345678]', 'rr3'), ('lea eax, [ebx+ebx*2]', 'rr'), ('lea ax, [ebx+ecx]', 'rr3'), ('lea esp, [esp+8]', 'r'),
          ('xchg eax, ebx', 'rr'), ('xchg al, ah', 'r'), ('xchg DWORD PTR [esi], ebx', 'mr'), ('xchg ax, bx', 'rr'), ('xadd eax, ebx', 'rr'), ('xadd DWORD PTR [esi], ebx', 'mr'),
          ('xadd al, bl', 'rr'), ('cmpxchg ebx, ecx', 'ax-rr'), ('cmpxchg DWORD PTR [esi], ecx', 'ax-mr'), ('cmpxchg bl, cl', 'ax-rr'), ('bswap eax', 'r'), ('bswap ebx', 'r'),
          ('cbw', 'ax'), ('cwde', 'ax'), ('cwd', 'ax'), ('cdq', 'ax'), ('clc', 'fl'), ('stc', 'fl'), ('cmc', 'fl'), ('cld', 'fl'), ('std', 'fl'), ('lahf', 'fl'), ('sahf', 'ax'),
          ('nop', 'fl'), ('xlat', 'xlat'), ('aaa', 'ax'), ('aas', 'ax'), ('daa', 'ax'), ('das', 'ax'), ('aam', 'ax'), ('aad', 'ax')]
    for c in CC:
        F += [('set%s bl' % c, 'fl-r'), ('set%s BYTE PTR [esi]' % c, 'fl-m'), ('cmov%s eax, ebx' % c, 'fl-rr'), ('cmov%s ax, bx' % c, 'fl-rr'), ('cmov%s eax, DWORD PTR [esi]' % c, 'fl-rm'),
              ('j%s .+20' % c, 'fl')]
    F += [('jecxz .+20', 'cx'), ('loop .+20', 'cx'), ('loope .+20', 'fl-cx'), ('loopne .+20', 'fl-cx'), ('jmp .+20', 'fl'), ('jmp .+200', 'fl'), ('jmp ebx', 'tgt-r'), ('jmp DWORD PTR [esi]', 'tgt-m'),
          ('call .+20', 'fl'), ('call ebx', 'tgt-r'), ('call DWORD PTR [esi]', 'tgt-m'), ('ret', 'ret'), ('ret 8', 'ret'),
          ('push eax', 'r'), ('push esp', 'fl'), ('push 0x12345678', 'fl'), ('push -1', 'fl'), ('push DWORD PTR [esi]', 'm'), ('push bx', 'r'), ('pop eax', 'stk'), ('pop esp', 'stk'),
          ('pop DWORD PTR [esi]', 'stk'), ('pop DWORD PTR [esp]', 'stk'), ('pop bx', 'stk'), ('pushfd', 'fl'), ('popfd', 'popf'), ('pushad', 'all'), ('popad', 'stk'),
          ('enter 8, 0', 'fl'), ('leave', 'leave'), ('pushfw', 'fl'), ('popfw', 'popf')]
    for s in 'bwd':
        for m in ('movs', 'cmps', 'stos', 'lods', 'scas'):
            F.append(('%s%s' % (m, s), 'str'))
    # one register in both operand positions (two writes to one destination: the last one must be the architectural one)
    F += [('xadd eax, eax', 'rr'), ('xadd dx, dx', 'rr'), ('xadd cl, cl', 'rr'), ('xadd al, ah', 'rr'), ('xchg ebx, ebx', 'rr'), ('xchg bl, bh', 'rr'),
          ('imul eax, eax', 'rr'), ('imul ebx, ebx, 7', 'rr'), ('shld eax, eax, 4', 'rr'), ('shrd ebx, ebx, 31', 'rr'), ('shld ecx, ecx, cl', 'rc'),
          ('bt eax, eax', 'rr'), ('bts ebx, ebx', 'rr'), ('btr ecx, ecx', 'rr'), ('btc edx, edx', 'rr'), ('bsf eax, eax', 'rr'), ('bsr ebx, ebx', 'rr'),
          ('movzx eax, al', 'rr'), ('movsx eax, ah', 'rr'), ('movsx ebx, bx', 'rr'), ('mov al, ah', 'rr'), ('add al, ah', 'rr'), ('sub ah, al', 'rr'),
          ('lea eax, [eax+eax*2]', 'rr'), ('cmpxchg ecx, ecx', 'ax-rr'), ('cmpxchg eax, eax', 'ax-rr'), ('cmpxchg al, al', 'ax-rr'),
          ('mul eax', 'ax-r'), ('imul eax', 'ax-r'), ('mul al', 'ax-r'), ('imul dx', 'ax-r'), ('mul edx', 'ax-r'), ('div ecx', 'ax-r')]
    # stack instructions whose memory operand is addressed through esp (the address uses esp BEFORE the push / AFTER the pop)
    F += [('push DWORD PTR [esp]', 'stk'), ('push DWORD PTR [esp+4]', 'stk'), ('push DWORD PTR [esp-4]', 'stk'), ('push WORD PTR [esp+2]', 'stk'),
          ('pop DWORD PTR [esp+4]', 'stk'), ('pop DWORD PTR [esp-4]', 'stk'), ('pop WORD PTR [esp+2]', 'stk'), ('push DWORD PTR [esp+ebx*4]', 'stk-idx'),
          ('call DWORD PTR [esp]', 'tgt-stk'),
          ('pop DWORD PTR [esp+ebx*4+8]', 'stk-idx'), ('pop WORD PTR [esp+ebx*1+16]', 'stk-idx'), ('push DWORD PTR [esp+ebx*4+8]', 'stk-idx'),
          ('pop DWORD PTR [esp+ebx*2]', 'stk-idx')]
    # 16-bit addressing (67): every ModRM row through lea (no memory access), negative / positive disp8 and disp16
    for ad in ('bx+si', 'bx+di', 'bp+si', 'bp+di', 'si', 'di', 'bp', 'bx'):
        for d in ('-16', '+100', '-1', '+0x1234', '-0x1234'):
            F.append(('lea eax, [%s%s]' % (ad, d), 'rr3' if '+' in ad else 'r'))
    F += [('lea ecx, [bx+si]', 'rr3'), ('lea cx, [bx+di-2]', 'rr3'), ('lea eax, [0x1234]', 'fl')]
    # bit instructions with a memory operand and a register bit offset (the addressed dword is base + 4*(offset>>5), signed)
    for m in ['bt', 'bts', 'btr', 'btc']:
        F += [('%s DWORD PTR [esi], ebx' % m, 'mbit'), ('%s WORD PTR [esi], bx' % m, 'mbit')]
        F += [('%s DWORD PTR [esi], 37' % m, 'm'), ('%s DWORD PTR [esi], 255' % m, 'm'), ('%s WORD PTR [esi], 17' % m, 'm')]
    # data movement through segment registers: far-pointer loads (m16:16 and m16:32), mov/push/pop of a segment register.
    # The runner loads es/fs/gs from the state and reports es/ds/fs/gs/ss; selectors are the loadable ones of a ring-3 process.
    F += [('les eax, [esi]', 'far32'), ('les bx, [esi]', 'far16'), ('lds ebx, [esi]', 'far32'), ('lds ax, [esi]', 'far16'), ('lss eax, [esi]', 'far32'), ('lss cx, [esi]', 'far16'),
          ('mov ax, es', 'seg'), ('mov eax, es', 'seg'), ('mov ebx, fs', 'seg'), ('mov cx, gs', 'seg'), ('mov eax, ds', 'seg'), ('mov eax, cs', 'seg'),
          ('mov WORD PTR [esi], es', 'seg'), ('mov WORD PTR [esi], gs', 'seg'), ('push es', 'seg'), ('push fs', 'seg'), ('push gs', 'seg'), ('push ds', 'seg'), ('push cs', 'seg'),
          ('mov es, ax', 'sel-r'), ('mov fs, bx', 'sel-r'), ('mov gs, eax', 'sel-r'), ('mov es, WORD PTR [esi]', 'sel-m'), ('mov fs, WORD PTR [esi]', 'sel-m'),
          ('pop es', 'sel-stk'), ('pop fs', 'sel-stk'), ('pop gs', 'sel-stk'), ('pop ds', 'sel-stk')]
    return F


SELECTORS = [cpu.USER_DS, cpu.USER_DS ^ 1, cpu.USER_CS, 0, 3]       # flat data (RPL 3 / RPL 2), flat code, null selectors


IMPLICIT = {'mul': ['eax', 'edx'], 'imul1': ['eax', 'edx'], 'div': ['eax', 'edx'], 'idiv': ['eax', 'edx']}


def regs_in(line):
    out = []
    for w in re.findall(r'\b(e[abcd]x|e[sd]i|e[sb]p|[abcd][lhx]|[sd]i|[sb]p)\b', line):
        r = SUB.get(w, w)
        if r not in out:
            out.append(r)
    return out


def states_for(line, kind, seed):
    """list of (regs dict, flag bits dict, memvalue or None)"""
    mn = line.split()[0]
    base = {'eax': 0x1111aaa1, 'ecx': 0x2222bbb2, 'edx': 0x3333ccc3, 'ebx': 0x4444ddd4, 'esp': cpu.ESP0, 'ebp': 0x5555eee5, 'esi': cpu.WIN + 64, 'edi': cpu.WIN + 160}
    rl = [r for r in regs_in(line) if r not in ('esp',)]
    hasmem = '[' in line and mn != 'lea'
    if hasmem:
        rl = [r for r in rl if r not in ('esi', 'edi')] if 'edi*4' not in line else [r for r in rl if r != 'esi']
    import random
    # six fixed pseudo-random 32-bit values per form on top of the boundary alphabet: the enumeration is the same for every
    # VERIF_SEED (a seed-dependent value could show a listed defect through a location no listed signature names)
    vals = list(V32)
    for k in range(3):
        rnd = random.Random(k * 131 + len(line))
        vals += [rnd.getrandbits(32), rnd.getrandbits(32)]
    flagsets = [dict((f, 0) for f in FLAGS), dict((f, 1) for f in FLAGS)]
    reads_flags = mn in ('adc', 'sbb', 'rcl', 'rcr', 'cmc', 'lahf', 'pushfd', 'pushfw', 'loope', 'loopne', 'aaa', 'aas', 'daa', 'das') or kind.startswith('fl-') or \
        (mn.startswith('j') and mn not in ('jmp', 'jecxz')) or mn.startswith('set') or mn.startswith('cmov')
    if reads_flags:
        flagsets = [dict(zip(FLAGS, bits)) for bits in itertools.product((0, 1), repeat=6)]
    S = []

    def add(regs, mem=None, fls=None):
        for fl in (fls or flagsets):
            S.append((regs, dict(fl, df=0), mem))
    if kind in ('rr', 'ax-rr', 'fl-rr'):
        a, b = (rl + ['eax', 'ebx'])[:2] if len(rl) >= 2 else (rl[0], rl[0]) if rl else ('eax', 'ebx')
        small = reads_flags
        for x in (VSMALL if small else vals):
            for y in (VSMALL if small else vals):
                regs = dict(base)
                regs[a] = x
                regs[b] = y if b != a else x
                if kind == 'ax-rr':
                    for z in (x, y, 0):
                        add(dict(regs, eax=z))
                else:
                    add(regs)
    elif kind in ('rr3', 'rrc'):
        a, b = rl[0], rl[1] if len(rl) > 1 else rl[0]
        for x in VSMALL:
            for y in VSMALL:
                for c in (COUNTS if kind == 'rrc' else VSMALL):
                    regs = dict(base)
                    regs[a], regs[b] = x, y
                    regs['ecx'] = c if kind == 'rrc' else c
                    add(regs)
    elif kind in ('r', 'fl-r', 'ax', 'cx', 'fl-cx'):
        a = rl[0] if rl else ('ecx' if 'cx' in kind else 'eax')
        for x in vals:
            add(dict(base, **{a: x}))
        if kind in ('cx', 'fl-cx'):
            for x in (0, 1, 2, 0x10000, 0xffff0000):
                add(dict(base, ecx=x))
    elif kind == 'rc':
        a = rl[0]
        for x in vals:
            for c in COUNTS + [0x120, 0xffffff01]:
                add(dict(base, **{a: x, 'ecx': c}) if a != 'ecx' else dict(base, ecx=c))
    elif kind in ('mr', 'rm', 'fl-rm', 'ax-mr'):
        a = rl[0] if rl else 'ebx'
        small = reads_flags or kind == 'ax-mr'
        for x in (VSMALL if small else vals):
            for y in (VSMALL if small else vals):
                regs = dict(base, **{a: x})
                if kind == 'ax-mr':
                    for z in (x, y):
                        add(dict(regs, eax=z), y)
                else:
                    add(regs, y)
    elif kind in ('m', 'fl-m', 'tgt-m'):
        for y in vals:
            add(dict(base), (cpu.CODE + 0x900 + (y & 0xff)) if kind == 'tgt-m' else y)
    elif kind == 'mc':
        for y in VSMALL:
            for c in COUNTS:
                add(dict(base, ecx=c), y)
    elif kind in ('ax-r',):
        a = rl[0]
        for x in vals:
            for y in vals:
                for d in (0, 1, 0xffffffff, x):
                    regs = dict(base, eax=x, edx=d)
                    regs[a] = y
                    add(regs)
    elif kind in ('ax-m',):
        for x in vals:
            for y in vals:
                for d in (0, 1, 0xffffffff):
                    add(dict(base, eax=x, edx=d), y)
    elif kind == 'tgt-r':
        for y in range(0, 0x400, 0x55):
            add(dict(base, ebx=cpu.CODE + 0x900 + y))
    elif kind == 'ret':
        for y in range(0, 0x400, 0x55):
            add(dict(base), ('stack', cpu.CODE + 0x900 + y))
    elif kind in ('stk', 'leave'):
        for y in vals:
            regs = dict(base)
            if kind == 'leave':
                regs['ebp'] = cpu.WIN + 0xa0
            add(regs, ('stack', y))
    elif kind == 'stk-idx':
        for y in vals[:6]:
            for k in (0, 1, 2, 0xffffffff):
                add(dict(base, ebx=k), ('stack', y))
    elif kind == 'tgt-stk':
        for y in range(0, 0x400, 0x55):
            add(dict(base), ('stack', cpu.CODE + 0x900 + y))
    elif kind == 'mbit':
        for y in VSMALL:
            for k in (0, 1, 7, 15, 16, 31, 32, 33, 37, 63, 64, 100, 255, 0x3ff, 0xffffffff, 0xffffffe0, 0xffffffdf, 0xffffff00, 0xfffffe01):
                add(dict(base, ebx=k), y)
    elif kind == 'popf':
        for bits in itertools.product((0, 1), repeat=7):
            v = 0x202
            for f, b in zip(FLAGS + ['df'], bits):
                v |= b << cpu.FLAGBITS[f]
            add(dict(base), ('stack', v), flagsets[:1])
    elif kind == 'all':
        for x in VSMALL:
            add(dict(base, eax=x, ebx=x ^ 0xffffffff))
    elif kind == 'str':
        for df in (0, 1):
            for x in VSMALL:
                for y in VSMALL:
                    for fl in flagsets:
                        S.append((dict(base, eax=x), dict(fl, df=df), ('both', x ^ 0x5a5a5a5a, y)))
    elif kind in ('far32', 'far16'):
        for off in VSMALL:
            for sel in SELECTORS:
                for other in (0x5a5a, cpu.USER_DS):       # the word at the other layout's selector position
                    add(dict(base), (kind, off, sel, other))
    elif kind == 'seg':
        for sel in SELECTORS:
            for x in (0, 0xffffffff):
                add(dict(base, eax=x, ebx=x, ecx=x, es=sel, fs=sel ^ 1 if sel > 3 else sel, gs=sel))
    elif kind == 'sel-r':
        for sel in SELECTORS:
            for hi in (0, 0xffff0000):
                add(dict(base, eax=hi | sel, ebx=hi | sel))
    elif kind == 'sel-m':
        for sel in SELECTORS:
            for hi in (0, 0xffff0000):
                add(dict(base), hi | sel)
    elif kind == 'sel-stk':
        for sel in SELECTORS:
            for hi in (0, 0xffff0000):
                add(dict(base), ('stack', hi | sel))
    elif kind == 'xlat':
        for x in (0, 1, 0x7f, 0x80, 0xff):
            add(dict(base, ebx=cpu.WIN, eax=0x11223300 | x))
    else:
        add(dict(base))
        for x in VSMALL:
            add(dict(base, eax=x, ebx=x ^ 0x55aa55aa))
    return S


def mem_image(line, memval, regs):
    img = bytearray((i * 7 + 3) & 0xff for i in range(256))
    if memval is None:
        return bytes(img)
    if isinstance(memval, tuple) and memval[0] == 'stack':
        off = regs['esp'] - cpu.WIN
        img[off:off + 4] = (memval[1] & 0xffffffff).to_bytes(4, 'little')
        if 'ebp' in regs and cpu.WIN <= regs['ebp'] < cpu.WIN + 252:
            o2 = regs['ebp'] - cpu.WIN
            img[o2:o2 + 4] = (memval[1] & 0xffffffff).to_bytes(4, 'little')
        return bytes(img)
    if isinstance(memval, tuple) and memval[0] in ('far32', 'far16'):
        o1 = regs['esi'] - cpu.WIN
        if memval[0] == 'far32':
            img[o1:o1 + 6] = (memval[1] & 0xffffffff).to_bytes(4, 'little') + memval[2].to_bytes(2, 'little')
            if memval[3] != 0x5a5a:
                img[o1 + 2:o1 + 4] = memval[3].to_bytes(2, 'little')
        else:
            img[o1:o1 + 6] = (memval[1] & 0xffff).to_bytes(2, 'little') + memval[2].to_bytes(2, 'little') + memval[3].to_bytes(2, 'little')
        return bytes(img)
    if isinstance(memval, tuple) and memval[0] == 'both':
        o1, o2 = regs['esi'] - cpu.WIN, regs['edi'] - cpu.WIN
        img[o1:o1 + 4] = (memval[1] & 0xffffffff).to_bytes(4, 'little')
        img[o2:o2 + 4] = (memval[2] & 0xffffffff).to_bytes(4, 'little')
        return bytes(img)
    off = regs['esi'] - cpu.WIN
    m = re.search(r'\[esi\+(\d+)\]', line)
    if m:
        off += int(m.group(1))
    if 'edi*4' in line:
        off = regs['esi'] - cpu.WIN + 8 + 4 * (regs['edi'] & 7)
    img[off:off + 4] = (memval & 0xffffffff).to_bytes(4, 'little')
    return bytes(img)


def undefined(mn, line, pre, regs, memval):
    """flags (and 'dst') the architecture leaves undefined for this state"""
    u = set()
    m0 = mn
    if m0 in ('and', 'or', 'xor', 'test'):
        u.add('af')
    if m0 in ('mul', 'imul'):
        u |= {'nf', 'zf', 'af', 'pf'}
    if m0 in ('div', 'idiv'):
        u |= set(FLAGS)
    if m0 in ('shl', 'sal', 'shr', 'sar', 'rol', 'ror', 'rcl', 'rcr', 'shld', 'shrd'):
        ops = line.split(None, 1)[1].split(',')
        cnt = ops[-1].strip()
        c = (regs['ecx'] & 0xff) if cnt == 'cl' else (int(cnt, 0) & 0xff)
        cm = c & 31
        size = 8 if re.search(r'\b([abcd][lh]|BYTE)\b', ops[0]) else 16 if re.search(r'\b([abcd]x|WORD PTR)\b', ops[0]) and 'DWORD' not in ops[0] else 32
        if cm != 1:
            u.add('of')
        if m0 in ('shl', 'sal', 'shr', 'sar', 'shld', 'shrd'):
            if cm != 0:
                u.add('af')
            if cm >= size and m0 in ('shl', 'sal', 'shr'):
                u.add('cf')
            if m0 in ('shld', 'shrd') and cm > size:
                u |= set(FLAGS) | {'dst'}
            if m0 in ('shld', 'shrd') and size == 16 and cm > 16:
                u |= set(FLAGS) | {'dst'}
    if m0 in ('bt', 'bts', 'btr', 'btc'):
        u |= {'of', 'nf', 'af', 'pf'}
    if m0 in ('bsf', 'bsr'):
        u |= {'cf', 'of', 'nf', 'af', 'pf', 'dst-if-zero'}
    if m0 in ('aaa', 'aas'):
        u |= {'of', 'nf', 'zf', 'pf'}
    if m0 in ('aad', 'aam'):
        u |= {'of', 'af', 'cf'}
    if m0 in ('daa', 'das'):
        u |= {'of'}
    return u


def lift(ctx, b):
    ins = ctx['ia32'].x86mnemo.dis(b)
    if ins is None:
        return None
    lst = ctx['eh'].get_instr_expr(ins, ctx['X'].ExprInt32(cpu.ENTRY + len(b)), [])
    return [irsem.to_neutral(e) for e in lst]


def miasm_post(lifted, regs, fl, eflags, img):
    ids = dict(regs)
    for f in FLAGS + ['df']:
        ids[f] = fl[f]
    for name, bit in (('tf', 8), ('i_f', 9), ('nt', 14), ('rf', 16), ('vm', 17), ('ac', 18), ('vif', 19), ('vip', 20), ('i_d', 21)):
        ids[name] = (eflags >> bit) & 1
    ids['iopl_f'] = (eflags >> 12) & 3
    for s in ('ds', 'es', 'ss', 'fs', 'gs'):
        ids.setdefault(s, cpu.USER_DS)
    ids['cs'] = cpu.USER_CS
    ids.update({'dr7': 0, 'cr0': 0, 'eip': cpu.ENTRY})
    mem = {cpu.WIN + i: img[i] for i in range(256)}
    env = irsem.Env(ids, mem, 0)
    writes = []
    for t in lifted:
        dst, src = t[1], t[2]
        v = irsem.ev_int(src, env)
        if dst[0] == 'id':
            writes.append(('id', dst[1], v & irsem.mask(dst[2])))
        else:
            writes.append(('mem', irsem.ev_int(dst[1], env) & 0xffffffff, dst[2], v))
    post = dict(ids)
    pmem = dict(mem)
    eip = None
    for w in writes:
        if w[0] == 'id':
            if w[1] == 'eip':
                eip = w[2]
            else:
                post[w[1]] = w[2]
        else:
            for i in range(w[2] // 8):
                pmem[(w[1] + i) & 0xffffffff] = (w[3] >> (8 * i)) & 0xff
    return post, pmem, eip


def opform(line):
    ops = line.split(None, 1)[1].split(',') if ' ' in line else []
    ks = []
    for o in ops:
        o = o.strip()
        if '[' in o:
            ks.append('m' + {'BYTE': '8', 'WORD': '16', 'DWORD': '32'}.get(o.split()[0], ''))
        elif re.match(r'^(e[abcd]x|e[sd]i|e[sb]p)$', o):
            ks.append('r32')
        elif re.match(r'^([abcd]x|[sd]i|[sb]p)$', o):
            ks.append('r16')
        elif re.match(r'^[abcd][lh]$', o):
            ks.append('cl' if o == 'cl' and len(ks) >= 1 else 'r8' + ('h' if o[1] == 'h' else ''))
        elif re.match(r'^[cdefgs]s$', o):
            ks.append('sreg')
        elif re.match(r'^(st(\(\d\))?|mm\d|xmm\d)$', o):
            ks.append(re.sub(r'[\d()]', '', o))
        elif o.startswith('.'):
            ks.append('rel')
        else:
            ks.append('imm')
    return ','.join(ks)


def compare(line, mn, regs, fl, memval, res, lifted, eflags, img, blen):
    """returns None or (location, detail)"""
    if res['sig'] != cpu.SIGTRAP:
        return 'fault'
    try:
        post, pmem, eip = miasm_post(lifted, regs, fl, eflags, img)
    except irsem.Undefined:
        return ('reference-defined-result', 'the processor executes the instruction (no fault) but the lifted semantics divide by zero / overflow')
    und = undefined(mn, line, fl, regs, memval)
    for r in GPR:
        if 'dst' in und:
            break
        if 'dst-if-zero' in und:
            continue_ = False
        if post[r] != res['regs'][r]:
            if 'dst-if-zero' in und and r == SUB.get(line.split()[1].strip(','), line.split()[1].strip(',')):
                # bsf/bsr with a zero source leave the destination undefined
                src_zero = (res['eflags'] >> 6) & 1
                if src_zero:
                    continue
            return ('reg:%s' % ('esp' if r == 'esp' else 'gpr'), '%s = %#x, processor %#x' % (r, post[r], res['regs'][r]))
    for f in FLAGS + ['df']:
        if f in und or ('dst' in und):
            continue
        c = (res['eflags'] >> cpu.FLAGBITS[f]) & 1
        if post[f] & 1 != c or post[f] > 1:
            return ('flag:%s' % f, '%s = %#x, processor %d' % (f, post[f], c))
    for sg in ('es', 'ds', 'fs', 'gs', 'ss'):
        if post[sg] & 0xffff != res['segs'][sg]:
            return ('seg', '%s = %#x, processor %#x' % (sg, post[sg], res['segs'][sg]))
    if 'dst' not in und:
        for i in range(256):
            if mn == 'push' and re.search(r'push\s+[c-gs]s$', line) and regs['esp'] - cpu.WIN - 2 <= i < regs['esp'] - cpu.WIN:
                continue        # push sreg, 32-bit: the upper half of the slot is zero or left unmodified (SDM: model specific)
            if pmem.get(cpu.WIN + i, img[i]) != res['mem'][i]:
                return ('mem', 'byte at window+%d = %#x, processor %#x' % (i, pmem.get(cpu.WIN + i, img[i]), res['mem'][i]))
        extra = [a for a in pmem if not (cpu.WIN <= a < cpu.WIN + 256)]
        if extra:
            return ('mem-address', 'lifted semantics write to %#x, outside the data window the processor wrote to' % extra[0])
    # control flow: landing int3 address
    land = res['eip'] - 1
    nxt = cpu.ENTRY + blen
    taken_cpu = land != nxt
    if mn in ('jmp', 'call', 'ret') and ('[' in line or re.search(r'\b(ebx)\b', line) or mn == 'ret'):
        if eip is None or eip != land:
            return ('eip:indirect-target', 'lifted eip = %s, processor lands at %#x' % (hex(eip) if eip is not None else None, land))
    else:
        taken_mx = eip is not None and eip != nxt
        if taken_mx != taken_cpu:
            return ('eip:taken', 'lifted semantics: branch %staken (eip=%s), processor: %staken' % ('' if taken_mx else 'not ', hex(eip) if eip is not None else None, '' if taken_cpu else 'not '))
    return None


def count_class(line, regs):
    m = re.search(r',\s*(\d+|cl)\s*$', line)
    mn = line.split()[0]
    if mn not in ('shl', 'sal', 'shr', 'sar', 'rol', 'ror', 'rcl', 'rcr', 'shld', 'shrd') or not m:
        return ''
    c = (regs['ecx'] & 0xff) if m.group(1) == 'cl' else int(m.group(1))
    cm = c & 31
    return ' count=%s' % ('0' if cm == 0 else '1' if cm == 1 else 'n' if cm < 8 else 'ge8' if cm < 16 else 'ge16')


def make_ctx():
    ia32 = core.import_x86()
    import miasmx.expression.expression as X
    from miasmx.tools import emul_helper
    return {'ia32': ia32, 'X': X, 'eh': emul_helper}


def shard(s, ns, tier, seed):
    ctx = make_ctx()
    part = core.Part()
    F = forms(tier)
    mine = [f for i, f in enumerate(F) if i % ns == s]
    enc = R.gas_batch([f[0] for f in mine], 'intel')
    for (line, kind), b in zip(mine, enc):
        if b is None:
            part.skip('form rejected by GNU as')
            continue
        mn = line.split()[0]
        mnc = re.sub(r'^(set|cmov|j)(o|no|b|ae|e|ne|be|a|s|ns|p|np|l|ge|le|g)$', r'\1cc', mn)
        sigbase = '%s/%s' % (mnc, opform(line))
        wit0 = {'line': line, 'bytes': b.hex()}
        try:
            with core.quiet_stdout():
                lifted = lift(ctx, b)
        except Exception as ex:
            part.n += 1
            part.violation('%s out=lift-raises:%s' % (sigbase, type(ex).__name__), '%s (%s): lifting raises %r' % (line, b.hex(), ex), wit0)
            continue
        if lifted is None:
            part.skip('miasmX does not decode the form')
            continue
        S = states_for(line, kind, seed)
        if tier == 'quick' and len(S) > 3000:
            S = S[::(len(S) // 3000) + 1]         # quick tier: every k-th state of the product (stated in the evidence)
        recs = []
        for regs, fl, memval in S:
            eflags = 0x202
            for f, v in fl.items():
                eflags |= v << cpu.FLAGBITS[f]
            img = mem_image(line, memval, regs)
            recs.append(dict(code=b, regs=regs, eflags=eflags, mem=img, segs={k_: regs.get(k_, cpu.USER_DS) for k_ in ('es', 'fs', 'gs')}))
        results = cpu.run_batch(recs)
        for (regs, fl, memval), rec, res in zip(S, recs, results):
            try:
                r = compare(line, mn, regs, fl, memval, res, lifted, rec['eflags'], rec['mem'], len(b))
            except irsem.Unsupported as ex:
                part.skip('uninterpreted operator in the lifted semantics')
                continue
            except (KeyError, IndexError, TypeError, ValueError, irsem.IllTyped) as ex:
                r = ('ill-formed-ir', 'lifted semantics cannot be evaluated: %r' % (ex,))
            part.n += 1
            if r is None:
                part.keys.add(core.h64((line, tuple(sorted(regs.items())), tuple(sorted(fl.items())), str(memval))))
                if len(part.samples) < 2:
                    part.samples.append({'form': line, 'bytes': b.hex(), 'regs': {k_: hex(v_) for k_, v_ in regs.items()}, 'flags': fl, 'cpu_eflags': hex(res['eflags'])})
                part.outcomes.add(core.h64((line, res['eflags'] & cpu.STATUS_MASK)))
            elif r == 'fault':
                part.skips['processor faults (excluded)'] += 1
            else:
                wit = dict(wit0, regs=regs, flags=fl, mem=str(memval))
                part.violation('%s%s out=%s' % (sigbase, count_class(line, regs), r[0]), '%s (%s) with %s flags=%s mem=%s: %s' % (
                    line, b.hex(), {k: hex(v) for k, v in regs.items() if k in regs_in(line) + ['eax', 'ecx', 'edx']}, ''.join(str(fl[f]) for f in FLAGS), memval, r[1]),
                    wit, size=sum(bin(v).count('1') for v in regs.values()))
    return part


def run(tier, seed):
    t0 = time.time()
    core.import_x86()
    cpu.ensure_runner()
    cpu.selftest()
    irsem.selfcheck()
    F = forms(tier)
    part = core.run_sharded(shard, (tier, seed), nshards=core.NPROC * 6)
    rule = ('case = (instruction form, initial state): %d forms of the integer core (ALU, inc/dec/neg/not, shifts/rotates with counts 0,1,2,7,8,9,15,16,17,31,32,33,255 '
            'and cl, shld/shrd, mul/imul(1-3 operands)/div/idiv, bt*/bsf/bsr, movzx/movsx, mov/lea/xchg/xadd/cmpxchg/bswap, cbw..cdq, flag instructions, '
            'setcc/cmovcc/jcc x 16, loop*/jecxz, jmp/call/ret direct and indirect, push/pop/pushfd/popfd/pushad/popad/enter/leave, string instructions '
            'b/w/d with DF 0/1) encoded by GNU as; states = full product of the boundary alphabet (18 values + 2 seed values) over the form\'s input '
            'registers / memory operand x all 64 assignments of the status flags for flag-reading forms (quick tier: at most 3000 states per form, '
            'taken as every k-th element of the product). Each state runs on the host CPU (native runner, SIGTRAP frame gives the post-state) and '
            'through irsem on the lifted list with parallel assignment; compared: 8 GPRs, CF PF AF ZF SF OF DF (minus the SDM undefined table), the '
            '256-byte data window, taken/not-taken, indirect target, pushed return address. Faulting states are excluded.' % len(F))
    return core.finish('C04', tier, seed, t0, part, rule, exhaustive=(tier == 'thorough'), space={'forms': len(F)},
                       assumptions=['the host CPU is the reference (IA-32 compatibility mode of the kernel)', 'undefined-result table in mc/props/c04.py (from the SDM)',
                                    'irsem gives the meaning of the IR operators'],
                       explanation=None)


def replay(w):
    ctx = make_ctx()
    b = bytes.fromhex(w['bytes'])
    line = w['line']
    with core.quiet_stdout():
        lifted = lift(ctx, b)
    if 'regs' not in w:
        return True, 'lifting %s raises' % line
    regs, fl = w['regs'], w['flags']
    memval = eval(w['mem']) if w.get('mem') not in (None, 'None') else None
    eflags = 0x202
    for f, v in fl.items():
        eflags |= v << cpu.FLAGBITS[f]
    img = mem_image(line, memval, regs)
    res = cpu.run_batch([dict(code=b, regs=regs, eflags=eflags, mem=img, segs={k_: regs.get(k_, cpu.USER_DS) for k_ in ('es', 'fs', 'gs')})])[0]
    r = compare(line, line.split()[0], regs, fl, memval, res, lifted, eflags, img, len(b))
    if r and r != 'fault':
        return True, '%s: %s: %s' % (line, r[0], r[1])
    return False, 'ok'
