"""L_asm: assembly lines rendered from structured specs (DESIGN.md section 3), so that what a line
denotes is known by construction.  spec = (mnemonic, (operand spec, ...)); operand spec =
('reg', name) | ('mem', size bits|None, seg|None, base|None, index|None, scale, disp) | ('imm', value) | ('sym', name)"""
import itertools
from . import x86ref as R

SIZEKW = {8: 'BYTE', 16: 'WORD', 32: 'DWORD', 64: 'QWORD', 80: 'TBYTE', 128: 'XMMWORD', 48: 'FWORD'}


def vocabulary(ia32):
    """every mnemonic name the assembler knows (table keys expanded through the #..# suffix scheme + pseudo-ops)"""
    names = set()
    for k in ia32.x86mndb.mnemo_lookup:
        if '#' in k:
            for p in range(4):
                n = ia32.mmx_set_suffix(k, p)
                if 'INVALID' in n or 'REP' in n:
                    continue
                names.add(n)
        else:
            names.add(k)
    names |= set(getattr(ia32, 'mnemo_mmx', []))
    names |= {'movhlps', 'movlhps', 'lfence', 'mfence', 'sfence', 'pushfw', 'popfw', 'movsw', 'cmpsw', 'stosw', 'lodsw', 'scasw', 'insw', 'outsw',
              'insb', 'insd', 'outsb', 'outsd', 'movsb', 'movsd', 'cmpsb', 'cmpsd', 'stosb', 'stosd', 'lodsb', 'lodsd', 'scasb', 'scasd',
              'jz', 'jnz', 'jc', 'jnc', 'jnae', 'jnb', 'jna', 'jnbe', 'jpe', 'jpo', 'jnge', 'jnl', 'jng', 'jnle', 'setz', 'setnz', 'setc', 'setnc',
              'cmovz', 'cmovnz', 'cmovc', 'cmovnc', 'sal', 'wait', 'fwait', 'repe', 'xlatb', 'pushfd', 'popfd', 'pusha', 'popa', 'pushf', 'popf', 'retn', 'iretd'}
    for p in getattr(ia32, 'mnemo_sse_cmp', []):
        names.add(p)
    return sorted(n for n in names if n and '#' not in n)


def REG(n):
    return ('reg', n)


def MEM(size, base=None, index=None, scale=1, disp=0, seg=None):
    return ('mem', size, seg, base, index, scale, disp)


def IMM(v):
    return ('imm', v)


REGS_FULL = ['al', 'cl', 'ah', 'bh', 'ax', 'cx', 'eax', 'ecx', 'esp', 'ebp', 'esi', 'es', 'fs', 'mm0', 'mm3', 'xmm0', 'xmm5', 'st', 'st(1)', 'st(3)']
REGS_QUICK = ['al', 'ah', 'ax', 'eax', 'ecx', 'ebp', 'es', 'mm3', 'xmm5', 'st', 'st(1)']
ADDRS = [dict(base='eax'), dict(base='ebp'), dict(base='esp'), dict(base='ebx', index='esi'), dict(base='ebx', index='esi', scale=4),
         dict(index='esi', scale=8), dict(base='eax', disp=127), dict(base='eax', disp=128), dict(base='eax', disp=-128), dict(base='eax', disp=-129),
         dict(base='ebp', index='ecx', scale=2, disp=0x12345678), dict(disp=0x1234), dict(base='eax', seg='fs'), dict(base='edi', disp=4, seg='es'),
         dict(base='eax', index='eax', scale=2), dict(base='ebx', index='ebx', scale=4, disp=4), dict(base='edx', index='edx'),
         dict(base='ebx', index='esi', scale=2, disp=-4)]
IMMS_FULL = [-129, -128, -1, 0, 1, 127, 128, 255, 256, 32767, 32768, 65535, 65536, 2 ** 31 - 1, 2 ** 31, 2 ** 32 - 1]
IMMS_QUICK = [-129, -128, -1, 0, 1, 127, 128, 255, 256, 65535, 2 ** 31, 2 ** 32 - 1]


def shapes(tier, arity):
    """operand-shape alphabet for a given arity"""
    out = []
    if tier == 'thorough' or arity <= 1:
        regs, imms = REGS_FULL, IMMS_FULL
        for r in regs:
            out.append(REG(r))
        for size in (None, 8, 16, 32, 64, 80, 128):
            for a in (ADDRS if (size in (None, 32) or arity <= 1) else ADDRS[:2] + ADDRS[10:11]):
                out.append(MEM(size, **a))
        for v in imms:
            out.append(IMM(v))
        out.append(('sym', 'foo'))
    else:
        for r in REGS_QUICK:
            out.append(REG(r))
        for size in (None, 8, 16, 32, 64, 128):
            out.append(MEM(size, base='eax'))
        out.append(MEM(32, base='ebp', index='ecx', scale=2, disp=0x12345678))
        out.append(MEM(32, base='eax', disp=-129))
        out.append(MEM(8, base='esp', disp=4))
        out.append(MEM(32, disp=0x1234))
        out.append(MEM(32, base='eax', seg='fs'))
        out.append(MEM(32, base='eax', index='eax', scale=2))
        out.append(MEM(32, base='ebx', index='ebx', scale=4, disp=4))
        out.append(MEM(32, base='ebx', index='esi', scale=2, disp=-4))
        for v in IMMS_QUICK:
            out.append(IMM(v))
    return out


def render_operand_intel(o):
    k = o[0]
    if k == 'reg':
        return o[1]
    if k == 'imm':
        return str(o[1])
    if k == 'sym':
        return o[1]
    _, size, seg, base, index, scale, disp = o
    terms = []
    if base:
        terms.append(base)
    if index:
        terms.append('%s*%d' % (index, scale) if scale != 1 else index)
    s = '+'.join(terms)
    if disp or not terms:
        if terms:
            s += ('+%d' % disp) if disp >= 0 else ('-%d' % -disp)
        else:
            s = '%d' % disp
    s = '[%s]' % s
    if seg:
        s = '%s:%s' % (seg, s)
    if size:
        s = '%s PTR %s' % (SIZEKW[size], s)
    return s


def render_intel(spec):
    mn, ops = spec
    return (mn + ' ' + ', '.join(render_operand_intel(o) for o in ops)).strip()


def spec_nf(spec):
    """the normal form the line denotes, by construction"""
    mn, ops = spec
    out = []
    for o in ops:
        if o[0] == 'reg':
            n = o[1]
            if n == 'st':
                n = 'st0'
            elif n.startswith('st('):
                n = 'st' + n[3]
            out.append(('reg', n))
        elif o[0] == 'imm':
            out.append(('imm', o[1]))
        elif o[0] == 'sym':
            out.append(('imm', 0))
        else:
            _, size, seg, base, index, scale, disp = o
            b, i, k = base, index, scale
            if b and i and k == 1 and not ({b, i} & {'esp', 'ebp'}):
                b, i = sorted((b, i))
            if b is None and i is not None and k == 1:
                b, i = i, None
            out.append(('mem', size, seg, b, i, k, disp & 0xffffffff))
    text = render_intel((mn, tuple(('imm', 0) if o[0] == 'sym' else o for o in ops)))
    nf, _ = R.parse_intel(text, source='spec')
    # parse_intel applies the spelling conventions (string forms, int3, far ...); keep its mnemonic/prefix handling
    return nf


def kinds(spec):
    ks = []
    for o in spec[1]:
        if o[0] == 'reg':
            ks.append(R.regclass(o[1]) if not o[1].startswith('st') else 'st')
        elif o[0] == 'imm':
            v = o[1]
            ks.append('i8' if -128 <= v <= 127 else 'i16' if -32768 <= v <= 65535 else 'i32')
        elif o[0] == 'sym':
            ks.append('sym')
        else:
            ks.append('m%s' % (o[1] or ''))
    return ','.join(ks)


def specs(vocab, tier, arities=(0, 1, 2)):
    """deterministic enumeration of specs"""
    for mn in vocab:
        if 0 in arities:
            yield (mn, ())
    if 1 in arities:
        S1 = shapes(tier, 1)
        for mn in vocab:
            for a in S1:
                yield (mn, (a,))
    if 2 in arities:
        S2 = shapes(tier, 2)
        for mn in vocab:
            for a in S2:
                for b in S2:
                    if a[0] in ('imm', 'sym') and b[0] != 'reg':
                        continue        # an immediate destination is only meaningful for out/enter-like forms (kept: imm, reg)
                    yield (mn, (a, b))


# ---------------------------------------------------------------------------
# presentation-only rewrites (C19): the same spec rendered in another spelling

def _num(v, style):
    if style.get('base') == 'hex':
        return ('-0x%x' % -v) if v < 0 else ('0x%x' % v)
    if style.get('base') == 'HEX':
        return ('-0X%X' % -v) if v < 0 else ('0X%X' % v)
    return str(v)


def render_operand_styled(o, style):
    k = o[0]
    up = style.get('case') == 'upper'
    if k == 'reg':
        n = o[1]
        if n == 'st' and style.get('st0'):
            n = 'st(0)'
        elif n == 'st(0)' and style.get('st0'):
            n = 'st'
        if up:
            n = n.upper()
        if style.get('percent'):
            n = '%' + n
        return n
    if k == 'imm':
        v = o[1]
        w = style.get('wrap')
        if w:
            if v < 0:
                v += 1 << w
            elif v >= (1 << (w - 1)) and v < (1 << w):
                v -= 1 << w
        return _num(v, style)
    if k == 'sym':
        return o[1]
    _, size, seg, base, index, scale, disp = o
    b, i = base, index
    if up:
        b, i = (b.upper() if b else b), (i.upper() if i else i)
    if style.get('percent'):
        b, i = ('%' + b if b else b), ('%' + i if i else i)
    it = ('%s*%d' % (i, scale) if scale != 1 else i) if i else None
    if style.get('scale_first') and i and scale != 1:
        it = '%d*%s' % (scale, i)
    terms = [t for t in ((it, b) if style.get('index_first') else (b, it)) if t]
    sp = ' ' if style.get('inner_space') else ''
    ds = style.get('disp', 'last')
    if not terms:
        s = '[%s]' % _num(disp, style)
    elif disp == 0 and ds != 'outside':
        s = '[%s]' % (sp + '+' + sp).join(terms)
    elif ds == 'outside':
        s = '%s[%s]' % (_num(disp, style), (sp + '+' + sp).join(terms))
    elif ds == 'first':
        s = '[%s]' % (sp + '+' + sp).join([_num(disp, style)] + terms)
    elif ds == 'middle' and len(terms) == 2:
        s = '[%s%s%s]' % (terms[0], (sp + '+' + sp + _num(disp, style)) if disp >= 0 else (sp + '-' + sp + _num(-disp, style)), sp + '+' + sp + terms[1])
    else:
        s = '[%s%s]' % ((sp + '+' + sp).join(terms), (sp + '+' + sp + _num(disp, style)) if disp >= 0 else (sp + '-' + sp + _num(-disp, style)))
    if seg:
        s = '%s:%s' % (seg.upper() if up else seg, s)
    if size:
        kw = SIZEKW[size] + ' PTR'
        if style.get('kwcase') == 'lower':
            kw = kw.lower()
        elif style.get('kwcase') == 'mixed':
            kw = kw.title()
        s = '%s %s' % (kw, s)
    return s


def render_styled(spec, style):
    mn, ops = spec
    sep = {'none': ',', 'tab': ',\t', 'double': ',  '}.get(style.get('comma'), ', ')
    gap = {'tab': '\t', 'double': '   '}.get(style.get('gap'), ' ')
    return (mn + gap + sep.join(render_operand_styled(o, style) for o in ops)).rstrip()


def opwidth(spec):
    """operand width the line itself fixes (8/16/32) or None"""
    for o in spec[1]:
        if o[0] == 'reg':
            c = R.regclass(o[1])
            if c in ('r8', 'r16', 'r32'):
                return int(c[1:])
        if o[0] == 'mem' and o[1] in (8, 16, 32):
            return o[1]
    return None


def rewrites(spec):
    """(kind, style) pairs applicable to this spec"""
    ops = spec[1]
    has_reg = any(o[0] == 'reg' for o in ops) or any(o[0] == 'mem' and (o[3] or o[4]) for o in ops)
    has_mem = any(o[0] == 'mem' for o in ops)
    has_num = any(o[0] == 'imm' for o in ops) or any(o[0] == 'mem' and o[6] for o in ops)
    out = []
    if has_reg:
        out.append(('case-registers', {'case': 'upper'}))
        out.append(('percent-prefix', {'percent': True}))
    if any(o[0] == 'mem' and o[1] for o in ops):
        out.append(('case-size-keyword', {'kwcase': 'lower'}))
        out.append(('case-size-keyword', {'kwcase': 'mixed'}))
    if len(ops) >= 2:
        out.append(('spacing', {'comma': 'none'}))
        out.append(('spacing', {'comma': 'tab'}))
        out.append(('spacing', {'comma': 'double'}))
    if ops:
        out.append(('spacing', {'gap': 'tab'}))
        out.append(('spacing', {'gap': 'double'}))
    if has_mem:
        out.append(('spacing', {'inner_space': True}))
    if has_num:
        out.append(('number-base', {'base': 'hex'}))
        out.append(('number-base', {'base': 'HEX'}))
    w = opwidth(spec)
    if any(o[0] == 'imm' for o in ops):
        if w == 32 or (w is None and spec[0] == 'push'):
            out.append(('sign-convention-32', {'wrap': 32}))
        elif w in (8, 16):
            out.append(('sign-convention-%d' % w, {'wrap': w}))
    for o in ops:
        if o[0] == 'mem' and (o[3] or o[4]) and o[6]:
            out.append(('disp-position', {'disp': 'outside'}))
            out.append(('disp-position', {'disp': 'first'}))
            if o[3] and o[4]:
                out.append(('disp-position', {'disp': 'middle'}))
            break
    for o in ops:
        if o[0] == 'mem' and o[3] and o[4] and o[5] != 1:
            out.append(('term-order', {'index_first': True}))
            out.append(('term-order', {'scale_first': True}))
            break
    if any(o == ('reg', 'st') for o in ops):
        out.append(('st-vs-st0', {'st0': True}))
    return out
