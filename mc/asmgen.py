"""L_asm: assembly lines rendered from structured specs (DESIGN.md section 3), so that what a line
denotes is known by construction.  spec = (mnemonic, (operand spec, ...)); operand spec =
('reg', name) | ('mem', size bits|None, seg|None, base|None, index|None, scale, disp) | ('imm', value) | ('sym', name)"""
import itertools
from . import x86ref as R

SIZEKW = {8: 'BYTE', 16: 'WORD', 32: 'DWORD', 64: 'QWORD', 80: 'TBYTE', 128: 'XMMWORD', 48: 'FWORD'}


def vocabulary(ia32):
    """every mnemonic name the assembler knows (table keys expanded through the #..# suffix scheme + pseudo-ops)"""
    names = set()
    for k in ia32.x86mndb.mnemo_lookup:
        if '#' in k:
            for p in range(4):
                n = ia32.mmx_set_suffix(k, p)
                if 'INVALID' in n or 'REP' in n:
                    continue
                names.add(n)
        else:
            names.add(k)
    names |= set(getattr(ia32, 'mnemo_mmx', []))
    names |= {'movhlps', 'movlhps', 'lfence', 'mfence', 'sfence', 'pushfw', 'popfw', 'movsw', 'cmpsw', 'stosw', 'lodsw', 'scasw', 'insw', 'outsw',
              'insb', 'insd', 'outsb', 'outsd', 'movsb', 'movsd', 'cmpsb', 'cmpsd', 'stosb', 'stosd', 'lodsb', 'lodsd', 'scasb', 'scasd',
              'jz', 'jnz', 'jc', 'jnc', 'jnae', 'jnb', 'jna', 'jnbe', 'jpe', 'jpo', 'jnge', 'jnl', 'jng', 'jnle', 'setz', 'setnz', 'setc', 'setnc',
              'cmovz', 'cmovnz', 'cmovc', 'cmovnc', 'sal', 'wait', 'fwait', 'repe', 'xlatb', 'pushfd', 'popfd', 'pusha', 'popa', 'pushf', 'popf', 'retn', 'iretd'}
    for p in getattr(ia32, 'mnemo_sse_cmp', []):
        names.add(p)
    return sorted(n for n in names if n and '#' not in n)


def REG(n):
    return ('reg', n)


def MEM(size, base=None, index=None, scale=1, disp=0, seg=None):
    return ('mem', size, seg, base, index, scale, disp)


def IMM(v):
    return ('imm', v)


REGS_FULL = ['al', 'cl', 'ah', 'bh', 'ax', 'cx', 'eax', 'ecx', 'esp', 'ebp', 'esi', 'es', 'fs', 'mm0', 'mm3', 'xmm0', 'xmm5', 'st', 'st(1)', 'st(3)']
REGS_QUICK = ['al', 'ah', 'ax', 'eax', 'ecx', 'ebp', 'es', 'mm3', 'xmm5', 'st', 'st(1)']
ADDRS = [dict(base='eax'), dict(base='ebp'), dict(base='esp'), dict(base='ebx', index='esi'), dict(base='ebx', index='esi', scale=4),
         dict(index='esi', scale=8), dict(base='eax', disp=127), dict(base='eax', disp=128), dict(base='eax', disp=-128), dict(base='eax', disp=-129),
         dict(base='ebp', index='ecx', scale=2, disp=0x12345678), dict(disp=0x1234), dict(base='eax', seg='fs'), dict(base='edi', disp=4, seg='es'),
         dict(base='eax', index='eax', scale=2), dict(base='ebx', index='ebx', scale=4, disp=4), dict(base='edx', index='edx')]
IMMS_FULL = [-129, -128, -1, 0, 1, 127, 128, 255, 256, 32767, 32768, 65535, 65536, 2 ** 31 - 1, 2 ** 31, 2 ** 32 - 1]
IMMS_QUICK = [-129, -128, -1, 0, 1, 127, 128, 255, 256, 65535, 2 ** 31, 2 ** 32 - 1]


def shapes(tier, arity):
    """operand-shape alphabet for a given arity"""
    out = []
    if tier == 'thorough' or arity <= 1:
        regs, imms = REGS_FULL, IMMS_FULL
        for r in regs:
            out.append(REG(r))
        for size in (None, 8, 16, 32, 64, 80, 128):
            for a in (ADDRS if (size in (None, 32) or arity <= 1) else ADDRS[:2] + ADDRS[10:11]):
                out.append(MEM(size, **a))
        for v in imms:
            out.append(IMM(v))
        out.append(('sym', 'foo'))
    else:
        for r in REGS_QUICK:
            out.append(REG(r))
        for size in (None, 8, 16, 32, 64, 128):
            out.append(MEM(size, base='eax'))
        out.append(MEM(32, base='ebp', index='ecx', scale=2, disp=0x12345678))
        out.append(MEM(32, base='eax', disp=-129))
        out.append(MEM(8, base='esp', disp=4))
        out.append(MEM(32, disp=0x1234))
        out.append(MEM(32, base='eax', seg='fs'))
        out.append(MEM(32, base='eax', index='eax', scale=2))
        out.append(MEM(32, base='ebx', index='ebx', scale=4, disp=4))
        for v in IMMS_QUICK:
            out.append(IMM(v))
    return out


def render_operand_intel(o):
    k = o[0]
    if k == 'reg':
        return o[1]
    if k == 'imm':
        return str(o[1])
    if k == 'sym':
        return o[1]
    _, size, seg, base, index, scale, disp = o
    terms = []
    if base:
        terms.append(base)
    if index:
        terms.append('%s*%d' % (index, scale) if scale != 1 else index)
    s = '+'.join(terms)
    if disp or not terms:
        if terms:
            s += ('+%d' % disp) if disp >= 0 else ('-%d' % -disp)
        else:
            s = '%d' % disp
    s = '[%s]' % s
    if seg:
        s = '%s:%s' % (seg, s)
    if size:
        s = '%s PTR %s' % (SIZEKW[size], s)
    return s


def render_intel(spec):
    mn, ops = spec
    return (mn + ' ' + ', '.join(render_operand_intel(o) for o in ops)).strip()


def spec_nf(spec):
    """the normal form the line denotes, by construction"""
    mn, ops = spec
    out = []
    for o in ops:
        if o[0] == 'reg':
            n = o[1]
            if n == 'st':
                n = 'st0'
            elif n.startswith('st('):
                n = 'st' + n[3]
            out.append(('reg', n))
        elif o[0] == 'imm':
            out.append(('imm', o[1]))
        elif o[0] == 'sym':
            out.append(('imm', 0))
        else:
            _, size, seg, base, index, scale, disp = o
            b, i, k = base, index, scale
            if b and i and k == 1 and not ({b, i} & {'esp', 'ebp'}):
                b, i = sorted((b, i))
            if b is None and i is not None and k == 1:
                b, i = i, None
            out.append(('mem', size, seg, b, i, k, disp & 0xffffffff))
    text = render_intel((mn, tuple(('imm', 0) if o[0] == 'sym' else o for o in ops)))
    nf, _ = R.parse_intel(text, source='spec')
    # parse_intel applies the spelling conventions (string forms, int3, far ...); keep its mnemonic/prefix handling
    return nf


def kinds(spec):
    ks = []
    for o in spec[1]:
        if o[0] == 'reg':
            ks.append(R.regclass(o[1]) if not o[1].startswith('st') else 'st')
        elif o[0] == 'imm':
            v = o[1]
            ks.append('i8' if -128 <= v <= 127 else 'i16' if -32768 <= v <= 65535 else 'i32')
        elif o[0] == 'sym':
            ks.append('sym')
        else:
            ks.append('m%s' % (o[1] or ''))
    return ','.join(ks)


def specs(vocab, tier, arities=(0, 1, 2)):
    """deterministic enumeration of specs"""
    for mn in vocab:
        if 0 in arities:
            yield (mn, ())
    if 1 in arities:
        S1 = shapes(tier, 1)
        for mn in vocab:
            for a in S1:
                yield (mn, (a,))
    if 2 in arities:
        S2 = shapes(tier, 2)
        for mn in vocab:
            for a in S2:
                for b in S2:
                    if a[0] in ('imm', 'sym') and b[0] != 'reg':
                        continue        # an immediate destination is only meaningful for out/enter-like forms (kept: imm, reg)
                    yield (mn, (a, b))
