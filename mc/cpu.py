"""R4 - the host CPU through native/runner.c (32-bit static ELF)."""
import os, struct, subprocess
from . import core

RUNNER = os.path.join(core.VERIF, 'build', 'runner')
CODE, DATA = 0x10000000, 0x20000000
ENTRY = CODE + 0x800
WIN = DATA + 0x700          # 256-byte data window
ESP0 = DATA + 0x780
REGS = ['eax', 'ecx', 'edx', 'ebx', 'esp', 'ebp', 'esi', 'edi']
REC = struct.Struct('<16sI8II512s256s3I')
RES = struct.Struct('<I8III512s256s5I')
USER_DS, USER_CS = 0x2b, 0x23          # flat 32-bit user segments of a compat process (selftest checks them)
SEG_DEFAULT = {'es': USER_DS, 'fs': USER_DS, 'gs': USER_DS}
FLAGBITS = {'cf': 0, 'pf': 2, 'af': 4, 'zf': 6, 'nf': 7, 'df': 10, 'of': 11}
STATUS_MASK = sum(1 << b for b in FLAGBITS.values())
SIGTRAP, SIGSEGV, SIGFPE, SIGILL, SIGBUS = 5, 11, 8, 4, 7


def default_fx():
    fx = bytearray(512)
    struct.pack_into('<H', fx, 0, 0x037f)       # FCW
    struct.pack_into('<I', fx, 24, 0x1f80)      # MXCSR
    struct.pack_into('<I', fx, 28, 0xffff)      # MXCSR_MASK
    return bytes(fx)


def ensure_runner():
    src = os.path.join(core.VERIF, 'native', 'runner.c')
    if not os.path.exists(RUNNER) or os.path.getmtime(RUNNER) < os.path.getmtime(src):
        os.makedirs(os.path.dirname(RUNNER), exist_ok=True)
        r = subprocess.run(['gcc', '-m32', '-O1', '-nostdlib', '-ffreestanding', '-static', '-fno-stack-protector', '-fno-pie', '-no-pie',
                            '-o', RUNNER, src], stdout=subprocess.PIPE, stderr=subprocess.STDOUT)
        if r.returncode != 0:
            core.harness_error('cannot build the native runner: %s' % r.stdout.decode()[-400:])


def run_batch(records):
    """records: list of dict(code=bytes, regs={name:int}, eflags=int, mem=bytes(256), fx=bytes(512)|None)
    returns list of dict(sig, regs, eip, eflags, mem, fx)"""
    ensure_runner()
    if not records:
        return []
    buf = bytearray()
    dfx = default_fx()
    for r in records:
        regs = [r['regs'].get(n, 0) & 0xffffffff for n in REGS]
        buf += REC.pack(r['code'].ljust(16, b'\xcc'), len(r['code']), *regs, r.get('eflags', 0x202) & 0xffffffff,
                        r.get('fx') or dfx, r.get('mem', bytes(256)).ljust(256, b'\0')[:256],
                        *[(r.get('segs') or SEG_DEFAULT).get(n, USER_DS) & 0xffff for n in ('es', 'fs', 'gs')])
    p = subprocess.run([RUNNER], input=bytes(buf), stdout=subprocess.PIPE, stderr=subprocess.PIPE)
    out = p.stdout
    if len(out) != RES.size * len(records):
        core.harness_error('native runner returned %d bytes for %d records (exit %s): the CPU oracle is not usable' % (len(out), len(records), p.returncode))
    res = []
    for i in range(len(records)):
        f = RES.unpack_from(out, i * RES.size)
        res.append({'sig': f[0], 'regs': dict(zip(REGS, f[1:9])), 'eip': f[9], 'eflags': f[10], 'fx': f[11], 'mem': f[12],
                    'segs': dict(zip(('gs', 'fs', 'es', 'ds', 'ss'), f[13:18]))})
    return res


def selftest():
    """known vectors; raises AssertionError if the oracle does not behave"""
    base = {n: 0 for n in REGS}
    base['esp'] = ESP0
    t = []
    t.append(dict(code=bytes.fromhex('01d8'), regs=dict(base, eax=0x7fffffff, ebx=1), eflags=0x202))         # add eax,ebx
    t.append(dict(code=bytes.fromhex('f7f3'), regs=dict(base, eax=1, edx=0, ebx=0), eflags=0x202))           # div ebx -> #DE
    t.append(dict(code=bytes.fromhex('8907'), regs=dict(base, eax=0x11223344, edi=WIN + 16), eflags=0x202))  # mov [edi],eax
    t.append(dict(code=bytes.fromhex('50'), regs=dict(base, eax=0xcafebabe), eflags=0x202))                  # push eax
    t.append(dict(code=bytes.fromhex('7402'), regs=dict(base), eflags=0x202 | 0x40))                         # je +2 (taken)
    t.append(dict(code=bytes.fromhex('7402'), regs=dict(base), eflags=0x202))                                # je +2 (not taken)
    t.append(dict(code=bytes.fromhex('d9e8'), regs=dict(base), eflags=0x202))                                # fld1
    t.append(dict(code=bytes.fromhex('8cc0'), regs=dict(base), eflags=0x202, segs={'es': USER_CS, 'fs': USER_DS, 'gs': USER_DS ^ 1}))   # mov eax, es
    t.append(dict(code=bytes.fromhex('c407'), regs=dict(base, edi=WIN + 16), eflags=0x202, mem=bytes(16) + bytes.fromhex('78563412' '2a00') + bytes(8)))  # les eax,[edi]
    r = run_batch(t)
    assert r[0]['sig'] == SIGTRAP and r[0]['regs']['eax'] == 0x80000000 and r[0]['eip'] == ENTRY + 3, r[0]
    assert (r[0]['eflags'] & STATUS_MASK) == (1 << 11 | 1 << 7 | 1 << 4 | 1 << 2), hex(r[0]['eflags'])
    assert r[1]['sig'] == SIGFPE and r[1]['eip'] == ENTRY, r[1]
    assert r[2]['mem'][16:20] == bytes.fromhex('44332211'), r[2]['mem'][:32]
    assert r[3]['regs']['esp'] == ESP0 - 4 and r[3]['mem'][0x7c:0x80] == bytes.fromhex('bebafeca'), (hex(r[3]['regs']['esp']), r[3]['mem'][0x78:0x84])
    assert r[4]['eip'] == ENTRY + 2 + 2 + 1 and r[5]['eip'] == ENTRY + 2 + 1, (hex(r[4]['eip']), hex(r[5]['eip']))
    assert r[6]['fx'][32:42] == bytes.fromhex('0000000000000080ff3f'), r[6]['fx'][:48].hex()
    assert r[7]['sig'] == SIGTRAP and r[7]['regs']['eax'] & 0xffff == USER_CS and r[7]['segs'] == {'gs': USER_DS ^ 1, 'fs': USER_DS, 'es': USER_CS, 'ds': USER_DS, 'ss': USER_DS}, r[7]
    assert r[8]['sig'] == SIGTRAP and r[8]['regs']['eax'] == 0x12345678 and r[8]['segs']['es'] == 0x2a, r[8]
    assert r[0]['segs'] == {'gs': USER_DS, 'fs': USER_DS, 'es': USER_DS, 'ds': USER_DS, 'ss': USER_DS}, r[0]['segs']
    r2 = run_batch(t)
    assert [(x['sig'], x['regs'], x['eip'], x['eflags'] & STATUS_MASK, x['mem']) for x in r] == [(x['sig'], x['regs'], x['eip'], x['eflags'] & STATUS_MASK, x['mem']) for x in r2], 'native runner is not deterministic'
    return True
