"""R2/R3: reference decoder (GNU objdump, llvm-mc as adjudicator), reference assembler (GNU as),
and the normal form NF in which miasmX's Intel rendering and the references are compared."""
import os, re, subprocess, tempfile
from . import core

SLOT = 32


# ---------------------------------------------------------------------------
# objdump batch

_ODLINE = re.compile(r'^\s*([0-9a-f]+):\t(.*)$')


def objdump_batch(cases, syntax='intel', raw=False):
    """cases: list of byte strings (<= 15 bytes).  Each is laid out in a 32-byte slot padded with 0x90.
    returns list of (length, text) for the instruction at the start of each slot (text None if unparsable)"""
    if not cases:
        return []
    d = core.scratch()
    fd, path = tempfile.mkstemp(prefix='od-', suffix='.bin', dir=d)
    with os.fdopen(fd, 'wb') as f:
        for c in cases:
            f.write(c.ljust(SLOT, b'\x90'))
    try:
        args = ['objdump', '-D', '-z', '-b', 'binary', '-m', 'i386', '--no-show-raw-insn']
        args += ['-M', 'intel'] if syntax == 'intel' else ['-M', 'att'] if syntax == 'att' else ['-M', 'att,suffix'] if syntax == 'att-suffix' else []
        r = subprocess.run(args + [path], stdout=subprocess.PIPE, stderr=subprocess.PIPE)
        if r.returncode != 0:
            core.harness_error('objdump failed: %s' % r.stderr.decode()[-300:])
        res = [None] * len(cases)
        prev = None
        for line in r.stdout.decode('latin1').split('\n'):
            m = _ODLINE.match(line)
            if not m:
                continue
            a = int(m.group(1), 16)
            if prev is not None:
                res[prev[0]] = (a - prev[1], prev[2])
                prev = None
            if a % SLOT == 0:
                prev = (a // SLOT, a, m.group(2).strip())
        if prev is not None:
            res[prev[0]] = (SLOT * (prev[0] + 1) - prev[1], prev[2])
        return res
    finally:
        os.unlink(path)


def llvm_batch(cases):
    """llvm-mc --disassemble, one process, one line per case; returns list of text or None"""
    inp = '\n'.join(' '.join('0x%02x' % b for b in c.ljust(16, b'\x90')) for c in cases) + '\n'
    r = subprocess.run(['llvm-mc', '--disassemble', '-triple=i386', '--output-asm-variant=1'], input=inp.encode(),
                       stdout=subprocess.PIPE, stderr=subprocess.PIPE)
    # llvm-mc prints all instructions of a line; we only need the first of each line -> run per case is too slow,
    # so decode each case separately by making every line its own .text chunk is not supported: fall back to one call per case
    return None


def llvm_one(b):
    inp = ' '.join('0x%02x' % x for x in b.ljust(16, b'\x90')) + '\n'
    r = subprocess.run(['llvm-mc', '--disassemble', '-triple=i386', '--output-asm-variant=1'], input=inp.encode(),
                       stdout=subprocess.PIPE, stderr=subprocess.PIPE)
    lines = [l.strip() for l in r.stdout.decode('latin1').split('\n') if l.startswith('\t') and not l.strip().startswith('.')]
    if not lines:
        return None
    # length: count leading instructions until the nop sled; re-run on growing prefixes is expensive; use the
    # encoding comment instead
    r2 = subprocess.run(['llvm-mc', '--disassemble', '-triple=i386', '--output-asm-variant=1', '-show-encoding'], input=inp.encode(),
                        stdout=subprocess.PIPE, stderr=subprocess.PIPE)
    ln = None
    for l in r2.stdout.decode('latin1').split('\n'):
        if 'encoding:' in l:
            enc = l.split('encoding:')[1]
            ln = enc.count('0x')
            break
    return (ln, lines[0].split('#')[0].strip())


# ---------------------------------------------------------------------------
# normal form

REG32 = ['eax', 'ecx', 'edx', 'ebx', 'esp', 'ebp', 'esi', 'edi']
REG16 = ['ax', 'cx', 'dx', 'bx', 'sp', 'bp', 'si', 'di']
REG8 = ['al', 'cl', 'dl', 'bl', 'ah', 'ch', 'dh', 'bh']
SEGS = ['es', 'cs', 'ss', 'ds', 'fs', 'gs']
REGS = set(REG32 + REG16 + REG8 + SEGS + ['cr%d' % i for i in range(16)] + ['dr%d' % i for i in range(16)] +
           ['db%d' % i for i in range(16)] + ['tr%d' % i for i in range(8)] +
           ['mm%d' % i for i in range(8)] + ['xmm%d' % i for i in range(8)] + ['st%d' % i for i in range(8)] + ['eiz', 'bnd0', 'bnd1', 'bnd2', 'bnd3'])
SIZEKW = {'BYTE': 8, 'WORD': 16, 'DWORD': 32, 'FWORD': 48, 'QWORD': 64, 'TBYTE': 80, 'XMMWORD': 128, 'OWORD': 128, 'XWORD': 80,
          'YMMWORD': 256, 'ZMMWORD': 512}

CC = {'z': 'e', 'nz': 'ne', 'nae': 'b', 'c': 'b', 'nb': 'ae', 'nc': 'ae', 'na': 'be', 'nbe': 'a', 'pe': 'p', 'po': 'np',
      'nge': 'l', 'nl': 'ge', 'ng': 'le', 'nle': 'g'}
SYN = {'sal': 'shl', 'wait': 'fwait', 'repe': 'repz', 'repne': 'repnz', 'pushfd': 'pushf', 'popfd': 'popf',
       'pushad': 'pusha', 'popad': 'popa', 'xlatb': 'xlat', 'iretd': 'iret', 'retn': 'ret', 'icebp': 'int1',
       'cbtw': 'cbw', 'cwtl': 'cwde', 'cwtd': 'cwd', 'cltd': 'cdq', 'jcxz': 'jecxz', 'fwait': 'fwait',
       'lret': 'retf', 'ljmp': 'jmpf', 'lcall': 'callf', 'movabs': 'mov', 'fstpnce': 'fstp',
       'pushaw': 'pusha', 'popaw': 'popa', 'pushfw': 'pushf', 'popfw': 'popf', 'iretw': 'iret', 'retw': 'ret', 'retfw': 'retf',
       'callw': 'call', 'jmpw': 'jmp', 'leavew': 'leave', 'enterw': 'enter', 'pushw': 'push', 'popw': 'pop',
       'fnstenvw': 'fnstenv', 'fldenvw': 'fldenv', 'fnsavew': 'fnsave', 'frstorw': 'frstor',
       'fnstenvd': 'fnstenv', 'fldenvd': 'fldenv', 'fnsaved': 'fnsave', 'frstord': 'frstor',
       'lgdtw': 'lgdt', 'lidtw': 'lidt', 'lgdtd': 'lgdt', 'lidtd': 'lidt', 'sgdtw': 'sgdt', 'sidtw': 'sidt', 'sgdtd': 'sgdt', 'sidtd': 'sidt',
       'fisttpll': 'fisttp', 'pextrw': 'pextrw', 'prefetchw': 'prefetchw', 'int1': 'int1', 'nopw': 'nop', 'nopl': 'nop',
       'movd': 'movd', 'cmpxchg8b': 'cmpxchg8b', 'data16': 'data16'}
# size-suffixed spellings objdump uses under a 0x66 prefix: base mnemonic + implied operand size 16
SIZED16 = {'pushaw', 'popaw', 'pushfw', 'popfw', 'iretw', 'retw', 'retfw', 'callw', 'jmpw', 'leavew', 'enterw', 'pushw', 'popw'}
STRING = ('movs', 'cmps', 'scas', 'lods', 'stos', 'ins', 'outs')
BRANCH = re.compile(r'^(j[a-z]+|call|jmp|loop[a-z]*|jecxz|jcxz|xbegin)$')
PSEUDO_PFX = ('data16', 'addr16', 'cs', 'ds', 'es', 'fs', 'gs', 'ss', 'data32', 'addr32')
PFX_WORDS = ('rep', 'repz', 'repnz', 'repe', 'repne', 'lock', 'notrack', 'bnd', 'xacquire', 'xrelease') + PSEUDO_PFX


class Unparsable(Exception):
    pass


def num(s):
    s = s.strip()
    neg = False
    if s.startswith('-'):
        neg, s = True, s[1:].strip()
    elif s.startswith('+'):
        s = s[1:].strip()
    if re.match(r'^0[xX][0-9a-fA-F]+$', s):
        v = int(s, 16)
    elif re.match(r'^[0-9]+$', s):
        v = int(s)
    elif re.match(r'^[0-9a-fA-F]+h$', s):
        v = int(s[:-1], 16)
    else:
        raise Unparsable('number %r' % s)
    return -v if neg else v


def split_ops(s):
    out, depth, cur = [], 0, ''
    for ch in s:
        if ch in '[(':
            depth += 1
        elif ch in '])':
            depth -= 1
        if ch == ',' and depth == 0:
            out.append(cur.strip())
            cur = ''
        else:
            cur += ch
    if cur.strip():
        out.append(cur.strip())
    return out


_TERM = re.compile(r'([+-]?)\s*([^+-]+)')


def parse_addr(inner):
    """'ecx+eax*4-0x6e' -> (base, index, scale, disp)"""
    base = index = None
    scale = 1
    disp = 0
    regs = []
    for sign, term in _TERM.findall(inner.replace(' ', '')):
        if '*' in term:
            x, y = term.split('*')
            if x in REGS:
                r, k = x, num(y)
            elif y in REGS:
                r, k = y, num(x)
            else:
                raise Unparsable('term %r' % term)
            if sign == '-':
                raise Unparsable('negative index')
            if r == 'eiz':
                continue
            if index is not None:
                raise Unparsable('two indexes')
            index, scale = r, k
        elif term in REGS:
            if sign == '-':
                raise Unparsable('negative reg')
            if term == 'eiz':
                continue
            regs.append(term)
        else:
            v = num(term)
            disp += -v if sign == '-' else v
    if len(regs) > 2 or (len(regs) == 2 and index is not None):
        raise Unparsable('too many registers in %r' % inner)
    if regs:
        base = regs[0]
        if len(regs) == 2:
            index, scale = regs[1], 1
    # with scale 1 and no esp/ebp(bp) involved the two roles are interchangeable
    if base and index and scale == 1 and not ({base, index} & {'esp', 'ebp', 'bp'}):
        base, index = sorted((base, index))
    if base is None and index is not None and scale == 1:
        base, index = index, None
    return base, index, scale, disp & 0xffffffff


def parse_operand(s, is_branch=False):
    s = s.strip()
    m = re.match(r'^%?st(\((\d)\))?$', s)
    if m:
        return ('reg', 'st%s' % (m.group(2) or '0'))
    m = re.match(r'^st(\d)$', s)
    if m:
        return ('reg', 'st%s' % m.group(1))
    size = None
    m = re.match(r'^([A-Za-z]+)\s+PTR\s*(.*)$', s, re.I)
    if m and m.group(1).upper() in SIZEKW:
        size = SIZEKW[m.group(1).upper()]
        s = m.group(2).strip()
    seg = None
    m = re.match(r'^([cdefgs]s):\s*(.*)$', s)
    if m:
        seg, s = m.group(1), m.group(2).strip()
    if s.startswith('[') and s.endswith(']') and size is None and re.match(r'^\[\s*[A-Za-z]+\s+PTR\s', s, re.I):
        return parse_operand(s[1:-1], is_branch)      # miasmX: 'call [DWORD PTR 1234]'
    if s.startswith('['):
        if not s.endswith(']'):
            raise Unparsable('bracket %r' % s)
        b, i, k, d = parse_addr(s[1:-1])
        return ('mem', size, seg, b, i, k, d)
    if s in REGS:
        if size is not None or seg is not None:
            raise Unparsable('sized register %r' % s)
        return ('reg', s)
    m = re.match(r'^(0x[0-9a-f]+):(0x[0-9a-f]+)$', s)
    if m:
        return ('far', num(m.group(1)), num(m.group(2)))
    v = num(s)
    if size is not None and seg is None:
        # miasmX: 'BYTE PTR 3030618753' is an absolute memory operand; 'push WORD PTR -128' handled by caller
        return ('mem', size, None, None, None, 1, v & 0xffffffff)
    if seg is not None:
        return ('mem', size, seg, None, None, 1, v & 0xffffffff)
    return ('imm', v)


def canon_mnemo(m):
    m = m.lower()
    m = SYN.get(m, m)
    for stem in ('j', 'set', 'cmov', 'fcmov'):
        if m.startswith(stem) and m[len(stem):] in CC:
            return stem + CC[m[len(stem):]]
    return m


def string_form(mn, ops):
    if any(o[0] == 'reg' and o[1].startswith('xmm') for o in ops):
        return None
    for base in STRING:
        if mn == base:
            return base, ''
        if mn.startswith(base) and mn[len(base):] in ('b', 'w', 'd'):
            return base, mn[len(base):]
    return None


class NF(object):
    __slots__ = ('pfx', 'mnemo', 'ops', 'text')

    def __init__(self, pfx, mnemo, ops, text):
        self.pfx, self.mnemo, self.ops, self.text = pfx, mnemo, ops, text

    def __repr__(self):
        return 'NF(%s %s %s)' % (' '.join(sorted(self.pfx)), self.mnemo, list(self.ops))


_CMPPRED = ['eq', 'lt', 'le', 'unord', 'neq', 'nlt', 'nle', 'ord']
_CMPALIAS = re.compile(r'^cmp(eq|lt|le|unord|neq|nlt|nle|ord)(ps|pd|ss|sd)$')
_CLMULALIAS = re.compile(r'^pclmul(lql|hql|lqh|hqh)qdq$')


def parse_intel(text, addr=None, length=None, opsize16=False, source='od'):
    """text of one instruction in Intel syntax (objdump's or miasmX's) -> NF.
    addr/length: slot address and instruction length, to turn objdump's branch targets into displacements"""
    t = text.strip()
    t = re.sub(r'\s+', ' ', t)
    if '<' in t:
        t = t.split('<')[0].strip()
    if '#' in t:
        t = t.split('#')[0].strip()
    words = t.split(' ')
    pfx = []
    while len(words) > 1 and (words[0].lower() in PFX_WORDS or re.match(r'^\[0x[0-9a-f]{2}\]$', words[0])):
        w0 = words.pop(0).lower()
        pfx.append({'[0xf2]': 'repnz', '[0xf3]': 'repz'}.get(w0, canon_mnemo(w0)))
    if words and words[0] == 'rep;':
        pfx.append('repz')
        words.pop(0)
    if not words:
        raise Unparsable(text)
    raw_mn = words[0].lower()
    rest = ' '.join(words[1:]).strip()
    mn = canon_mnemo(raw_mn)
    implied16 = raw_mn in SIZED16
    ops = []
    is_branch = bool(BRANCH.match(mn))
    for o in split_ops(rest):
        ops.append(parse_operand(o, is_branch))
    # spelling conventions that denote the same instruction
    if mn == 'push' and len(ops) == 1 and ops[0][0] == 'mem' and ops[0][1] == 16 and ops[0][2:6] == (None, None, None, 1) and source == 'mx':
        ops = [('imm', ops[0][6])]                      # miasmX: 'push WORD PTR 37505' is push imm16
        implied16 = implied16 or ops is None
    if mn == 'int3':
        mn, ops = 'int', [('imm', 3)]
    # objdump's pseudo-ops for an immediate predicate / selector: the same instruction with the immediate spelled out
    m = _CMPALIAS.match(mn)
    if m and len(ops) == 2:
        mn, ops = 'cmp' + m.group(2), ops + [('imm', _CMPPRED.index(m.group(1)))]
    m = _CLMULALIAS.match(mn)
    if m and len(ops) == 2:
        mn, ops = 'pclmulqdq', ops + [('imm', {'lql': 0x00, 'hql': 0x01, 'lqh': 0x10, 'hqh': 0x11}[m.group(1)])]
    if mn == 'xchg' and len(ops) == 2 and ops[0] == ops[1] and ops[0] in (('reg', 'eax'), ('reg', 'ax')):
        mn, ops = 'nop', []
    if mn in ('jmp', 'call') and len(ops) == 1 and (ops[0][0] == 'far' or (ops[0][0] == 'mem' and ops[0][1] == 48)):
        mn += 'f'
    if mn in ('jmpf', 'callf', 'call', 'jmp') and len(ops) == 2 and ops[0][0] == 'imm' and ops[1][0] == 'imm':
        mn = mn if mn.endswith('f') else mn + 'f'
        ops = [('far', ops[1][1] & 0xffff, ops[0][1] & 0xffffffff)]   # miasmX prints offset, selector
    sf = string_form(mn, ops)
    if sf:
        base, suffix = sf
        sz = {'b': 8, 'w': 16, 'd': 32, '': None}[suffix]
        seg = None
        for o in ops:
            if o[0] == 'mem':
                if o[1] and sz is None:
                    sz = o[1]
                if o[3] in ('esi', 'si') and o[2] not in (None, 'ds'):
                    seg = o[2]
            elif o[0] == 'reg' and o[1] in ('al', 'ax', 'eax') and base not in ('ins', 'outs') and sz is None:
                sz = {'al': 8, 'ax': 16, 'eax': 32}[o[1]]
            elif o[0] == 'seg':
                seg = o[1]
        mn = base + {8: 'b', 16: 'w', 32: 'd', None: ''}[sz]
        a16 = any(o[0] == 'mem' and o[3] in ('si', 'di') for o in ops)
        ops = ([('seg', seg)] if seg else []) + ([('addr16',)] if a16 else [])
    # branch displacement
    if is_branch and len(ops) == 1 and ops[0][0] == 'imm':
        v = ops[0][1]
        if source == 'od' and addr is not None:
            v = v - (addr + length)
        ops = [('rel', v & 0xffffffff)]
    return NF(tuple(pfx), mn, tuple(ops), text), implied16


def opsize_of(nf):
    """operand size implied by the first register / sized memory operand (None if none)"""
    for o in nf.ops:
        if o[0] == 'reg':
            r = o[1]
            if r in REG32:
                return 32
            if r in REG16:
                return 16
            if r in REG8:
                return 8
        if o[0] == 'mem' and o[1]:
            return o[1]
    return None


UNORDERED = ('xchg', 'test')


def regclass(r):
    if r in REG32:
        return 'r32'
    if r in REG16:
        return 'r16'
    if r in REG8:
        return 'r8'
    if r in SEGS:
        return 'sreg'
    return re.sub(r'\d+', '', r)


IMPLICIT_LAST = {'pblendvb': ('reg', 'xmm0'), 'blendvps': ('reg', 'xmm0'), 'blendvpd': ('reg', 'xmm0'), 'sha256rnds2': ('reg', 'xmm0')}


def compare_nf(a, b, width_hint=None):
    """a: miasmX, b: reference.  Returns None if equal else a short description of the first differing field."""
    if a.mnemo != b.mnemo:
        return 'mnemonic(%s/%s)' % (a.mnemo, b.mnemo)
    pa = set(p for p in a.pfx if p not in PSEUDO_PFX)
    pb = set(p for p in b.pfx if p not in PSEUDO_PFX)
    if pa != pb:
        # rep/repz are the same byte; objdump prints repz for f3 on cmps/scas and rep elsewhere
        norm = lambda s: set('rep' if x in ('repz',) else x for x in s)
        if norm(pa) != norm(pb):
            return 'prefix(%s/%s)' % ('+'.join(sorted(pa)) or '-', '+'.join(sorted(pb)) or '-')
    oa, ob = list(a.ops), list(b.ops)
    if len(ob) == len(oa) + 1 and IMPLICIT_LAST.get(b.mnemo) == ob[-1]:
        ob = ob[:-1]
    if len(oa) != len(ob):
        return 'operand-count(%d/%d)' % (len(oa), len(ob))
    if a.mnemo in UNORDERED and len(oa) == 2 and oa != ob and oa == ob[::-1]:
        return None
    w = width_hint or opsize_of(b) or opsize_of(a) or 32
    for i, (x, y) in enumerate(zip(oa, ob)):
        if x[0] != y[0]:
            return 'op%d.kind(%s/%s)' % (i, x[0], y[0])
        k = x[0]
        if k == 'reg' or k == 'seg':
            if x[1] != y[1]:
                ca, cb = regclass(x[1]), regclass(y[1])
                return 'op%d.reg(%s/%s)' % (i, ca, cb) if ca != cb else 'op%d.regnum(%s)' % (i, ca)
        elif k == 'imm':
            ww = w if w in (8, 16, 32) else 32
            if (x[1] - y[1]) % (1 << ww) != 0:
                return 'op%d.imm' % i
        elif k == 'rel':
            if (x[1] - y[1]) % (1 << 32) != 0:
                if not ((x[1] - y[1]) % (1 << 16) == 0 and width_hint == 16):
                    return 'op%d.rel' % i
        elif k == 'far':
            if x[1] != y[1] or (x[2] - y[2]) % (1 << (16 if width_hint == 16 else 32)) != 0:
                return 'op%d.far' % i
        elif k == 'mem':
            _, sx, gx, bx, ix, kx, dx = x
            _, sy, gy, by, iy, ky, dy = y
            if sx and sy and sx != sy:
                return 'op%d.size(%s/%s)' % (i, sx, sy)
            if (bx, ix, kx if ix else 1) != (by, iy, ky if iy else 1):
                # the same linear form (eax+eax = eax*2) is the same address unless esp/ebp roles (default segment) are involved
                def lin(b_, i_, k_):
                    d = {}
                    if b_:
                        d[b_] = d.get(b_, 0) + 1
                    if i_:
                        d[i_] = d.get(i_, 0) + k_
                    return d
                la, lb = lin(bx, ix, kx), lin(by, iy, ky)
                if la != lb or ({bx, ix, by, iy} & {'esp', 'ebp', 'bp'}):
                    return 'op%d.base-index' % i if (bx, ix) != (by, iy) else 'op%d.scale' % i
            dm = 16 if (bx in ('bx', 'bp', 'si', 'di') or ix in ('si', 'di')) else 32
            if (dx - dy) % (1 << dm) != 0:
                return 'op%d.disp' % i
            if (gx or None) != (gy or None):
                # a printed default segment is the same operand as no segment
                defseg = 'ss' if bx in ('ebp', 'esp', 'bp') else 'ds'
                if (gx or defseg) != (gy or defseg):
                    # 3E in front of an indirect jmp/call is both the no-track prefix and (outside 64-bit mode) still the DS
                    # override; objdump prints only "notrack": a printed ds next to notrack is not a difference
                    if 'notrack' in a.pfx + b.pfx and {gx or None, gy or None} == {'ds', None}:
                        continue
                    return 'op%d.segment' % i
    return None


def has_superfluous_prefix(nf_od, meta_pfx, od_text):
    """True if the reference decoder shows that some prefix byte of the case carries no meaning"""
    toks = od_text.split()
    lead = []
    for t in toks:
        if t in PFX_WORDS:
            lead.append(t)
        else:
            break
    for t in lead:
        if t in PSEUDO_PFX:
            return True
    mn = nf_od.mnemo
    if any(t in ('rep', 'repz', 'repnz', 'repe', 'repne') for t in lead):
        if not any(mn.startswith(s) for s in STRING) or any(o[0] == 'reg' and o[1].startswith('xmm') for o in nf_od.ops):
            return True
    if 'lock' in lead:
        lockable = ('add', 'adc', 'and', 'btc', 'btr', 'bts', 'cmpxchg', 'cmpxchg8b', 'dec', 'inc', 'neg', 'not', 'or', 'sbb', 'sub', 'xor', 'xadd', 'xchg')
        if mn not in lockable or not nf_od.ops or nf_od.ops[0][0] != 'mem':
            return True
    if any(t in ('bnd', 'xacquire', 'xrelease') for t in lead):
        return True
    # segment override / address size on an instruction without memory operand (objdump prints the pseudo prefix -> caught above)
    return False


# ---------------------------------------------------------------------------
# GNU as batch

def gas_batch(lines, syntax='intel'):
    """assemble each line separately (one label per line); returns list of bytes or None (rejected)"""
    if not lines:
        return []
    d = core.scratch()
    fd, src = tempfile.mkstemp(prefix='gas-', suffix='.s', dir=d)
    obj = src[:-2] + '.o'
    binf = src[:-2] + '.bin'
    hdr = '.intel_syntax noprefix\n' if syntax == 'intel' else '.att_syntax\n'
    rejected = set()
    try:
        for attempt in range(4):
            with open(src, 'w') as f:
                f.write(hdr)
                f.write('.text\n')
                for i, l in enumerate(lines):
                    f.write('L%d:\n' % i)
                    if i not in rejected:
                        f.write('  %s\n' % l)
                f.write('L%d:\n' % len(lines))
            r = subprocess.run(['as', '--32', '-o', obj, src], stdout=subprocess.PIPE, stderr=subprocess.PIPE)
            if r.returncode == 0:
                break
            new = set()
            for el in r.stderr.decode('latin1').split('\n'):
                m = re.match(r'^[^:]+:(\d+): (Error|Fatal)', el)
                if m:
                    ln = int(m.group(1))
                    # line numbers: header 2 lines, then pairs (label, insn)
                    idx = (ln - 3) // 2
                    if 0 <= idx < len(lines):
                        new.add(idx)
            if not new:
                # errors that gas reports by address only (fix-ups): bisect
                if len(lines) == 1:
                    return [None]
                h = len(lines) // 2
                return gas_batch(lines[:h], syntax) + gas_batch(lines[h:], syntax)
            rejected |= new
        else:
            core.harness_error('as: error set did not converge')
        subprocess.check_call(['objcopy', '-O', 'binary', '-j', '.text', obj, binf])
        data = open(binf, 'rb').read() if os.path.exists(binf) else b''
        nm = subprocess.run(['nm', '-n', obj], stdout=subprocess.PIPE).stdout.decode()
        offs = {}
        for l in nm.split('\n'):
            p = l.split()
            if len(p) == 3 and p[2].startswith('L') and p[2][1:].isdigit():
                offs[int(p[2][1:])] = int(p[0], 16)
        out = []
        for i in range(len(lines)):
            if i in rejected:
                out.append(None)
            else:
                out.append(data[offs[i]:offs[i + 1]])
        return out
    finally:
        for p in (src, obj, binf):
            try:
                os.unlink(p)
            except OSError:
                pass
