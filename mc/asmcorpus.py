"""Hand-written corpus of valid assembly lines (one or more per mnemonic class and operand shape);
used by C10 (single-token edits) and as the exemplar alphabet of the assembler checks."""

CORPUS_INTEL = [
    'nop', 'ret', 'ret 4', 'leave', 'hlt', 'cdq', 'cwde', 'cbw', 'cwd', 'clc', 'stc', 'cld', 'std', 'cmc', 'lahf', 'sahf', 'pushad', 'popad',
    'pushfd', 'popfd', 'int 3', 'int 128', 'into', 'ud2', 'pause', 'cpuid', 'rdtsc', 'xlat', 'aaa', 'aas', 'daa', 'das', 'aam', 'aad',
    'mov eax, ebx', 'mov al, 1', 'mov ah, bl', 'mov ax, 0', 'mov si, 32', 'mov eax, 0x12345678', 'mov eax, -1', 'mov cl, 255',
    'mov eax, DWORD PTR [ebp+12]', 'mov DWORD PTR [esp+8], eax', 'mov BYTE PTR [ebp-9], -2', 'mov WORD PTR [eax], 0x1234',
    'mov eax, DWORD PTR [eax+edx]', 'mov eax, DWORD PTR [ebx+esi*4]', 'mov eax, DWORD PTR [esi*8]', 'mov eax, DWORD PTR [ebp+ecx*2+0x12345678]',
    'mov eax, DWORD PTR [0x1234]', 'mov eax, DWORD PTR fs:[eax]', 'mov eax, DWORD PTR gs:20', 'mov al, BYTE PTR es:[edi+4]',
    'mov eax, DWORD PTR 8[ebp]', 'mov eax, DWORD PTR -8[ebp]', 'mov eax, DWORD PTR [esp]', 'mov eax, DWORD PTR [eax+127]', 'mov eax, DWORD PTR [eax+128]',
    'mov eax, DWORD PTR [eax-128]', 'mov eax, DWORD PTR [eax-129]', 'mov ds, ax', 'mov ax, es', 'mov eax, cr0', 'mov cr3, eax', 'mov eax, dr7',
    'movzx eax, al', 'movzx eax, BYTE PTR [ebp+ebx]', 'movzx eax, WORD PTR [eax]', 'movsx eax, al', 'movsx si, BYTE PTR [edx+1]', 'movsx eax, WORD PTR [ecx]',
    'lea ecx, [eax+edx]', 'lea ebx, [0+eax*4]', 'lea esi, [esi]', 'lea eax, [ebp-8]', 'xchg eax, edx', 'xchg DWORD PTR [eax], ecx', 'xadd DWORD PTR [eax+8], edx',
    'cmpxchg DWORD PTR [esi], ebx', 'lock xadd DWORD PTR [eax+8], edx', 'bswap eax',
    'add eax, ebx', 'add eax, 1', 'add eax, 127', 'add eax, 128', 'add eax, -128', 'add eax, -129', 'add al, 5', 'add ax, 17', 'add DWORD PTR [ebp-4], 66',
    'adc ecx, 2', 'sub eax, -145739803', 'sbb ebx, -1', 'cmp al, -66', 'cmp al, 166', 'cmp ax, 17', 'cmp dx, 0xFFFE', 'cmp eax, -1', 'cmp eax, 255',
    'cmp eax, DWORD PTR [ecx+edx+4]', 'and BYTE PTR [eax], 0x10', 'and DWORD PTR [eax], 0x10', 'or ah, 128', 'or dl, -42', 'xor edx, 128', 'xor eax, eax',
    'test al, 120', 'test BYTE PTR [ebp-92], dl', 'test eax, eax', 'not edx', 'neg ecx', 'inc eax', 'dec DWORD PTR [eax]', 'inc BYTE PTR [ebx]',
    'shl eax, 1', 'shl eax, cl', 'shl eax, 4', 'sal eax, 1', 'sar eax, cl', 'shr edx, 0x1F', 'rol eax, 6', 'ror eax, cl', 'rcl ebx, 1', 'rcr BYTE PTR [eax], 3',
    'shld edi, ebp, 1', 'shrd edi, ebp, cl', 'shld DWORD PTR [eax], ebx, 5',
    'mul ecx', 'mul BYTE PTR [eax]', 'imul ebx', 'imul eax, ebx', 'imul eax, eax, 200', 'imul eax, DWORD PTR [ecx], 5', 'div ecx', 'idiv DWORD PTR [esp+4]',
    'bt eax, 5', 'bts DWORD PTR [eax], ebx', 'btr eax, ecx', 'btc eax, 31', 'bsf eax, ebx', 'bsr ecx, DWORD PTR [eax]',
    'sete al', 'setne BYTE PTR [esp+31]', 'setle cl', 'setg dl', 'cmove eax, ebx', 'cmovl eax, DWORD PTR [ecx]', 'cmovae edx, esi',
    'push eax', 'push 0', 'push 127', 'push 128', 'push 0x12345678', 'push DWORD PTR [eax]', 'push es', 'push fs', 'pop ebx', 'pop DWORD PTR [edi+eax+303459835]', 'pop ds',
    'enter 8, 0', 'call eax', 'call DWORD PTR [eax]', 'call 0x10', 'jmp eax', 'jmp DWORD PTR [eax*4+0x1000]', 'jmp 2', 'jmp 0x1000', 'je 5', 'jne 0x1F', 'jg 2',
    'jecxz 4', 'loop -2', 'loopne 10', 'jl 300',
    'movsb', 'movsw', 'movsd', 'cmpsb', 'scasb', 'stosb', 'stosd', 'lodsb', 'rep movsd', 'rep stosb', 'repnz scasb', 'repz cmpsb', 'in al, dx', 'in eax, 4', 'out dx, al',
    'fld st(0)', 'fld DWORD PTR [esp+732]', 'fld QWORD PTR [esp+8]', 'fld TBYTE PTR [eax]', 'fst st(1)', 'fstp QWORD PTR [esp]', 'fstp st(0)', 'fild DWORD PTR [eax]',
    'fild WORD PTR [eax]', 'fistp DWORD PTR [ebp-4]', 'fisttp DWORD PTR [ebp-4]', 'fadd st, st(1)', 'fadd st(1), st', 'fadd DWORD PTR [esp+56]', 'fadd QWORD PTR [esp+56]',
    'faddp st(1), st', 'fsub st, st(2)', 'fsubr st, st(2)', 'fsubp st(1), st', 'fsubrp st(1), st', 'fmul st, st(1)', 'fmulp st(1), st', 'fdiv st, st(3)', 'fdivr QWORD PTR [ebp-112]',
    'fdivp st(1), st', 'fdivrp st(1), st', 'fchs', 'fabs', 'fsqrt', 'frndint', 'fxam', 'fnop', 'fld1', 'fldz', 'fxch st(1)', 'fucom st(1)', 'fucomp st(1)', 'fucompp', 'fcomi st, st(1)',
    'fucomi st, st(1)', 'fucomip st, st(1)', 'fcmovb st, st(1)', 'fcmove st, st(1)', 'fnstsw ax', 'fnstsw WORD PTR [eax]', 'fnstcw WORD PTR [eax]', 'fldcw WORD PTR [eax]',
    'ffree st(2)', 'fisub DWORD PTR [esp]', 'fldenv [eax]', 'fxsave [eax]',
    'movd mm0, eax', 'movd eax, mm1', 'movd xmm0, eax', 'movd eax, xmm1', 'movq mm0, mm1', 'movq xmm0, xmm1', 'movq mm0, QWORD PTR [eax]', 'movq QWORD PTR [eax], xmm1',
    'paddd mm0, mm1', 'paddd xmm0, xmm1', 'paddw xmm0, XMMWORD PTR [eax]', 'pxor mm2, mm3', 'pxor xmm2, xmm3', 'psllw xmm1, 1', 'psrld xmm1, 1', 'psrldq xmm1, 4', 'pslldq xmm3, 4',
    'pshufd xmm0, xmm0, 0', 'pshufw mm0, mm0, 0', 'pshuflw xmm0, xmm0, 0', 'pextrw eax, xmm0, 0', 'pinsrw xmm0, eax, 1', 'punpcklqdq xmm1, xmm2', 'movaps xmm0, xmm1',
    'movaps XMMWORD PTR [ebx+148], xmm1', 'movups xmm0, XMMWORD PTR [eax]', 'movss xmm1, xmm0', 'movss xmm0, DWORD PTR [eax]', 'movsd xmm0, xmm1', 'movsd xmm0, QWORD PTR [eax]',
    'movlps QWORD PTR [eax+20], xmm0', 'movhps QWORD PTR [eax+20], xmm0', 'movhlps xmm0, xmm1', 'movlhps xmm0, xmm1', 'addps xmm0, xmm1', 'addss xmm0, xmm1', 'addsd xmm0, QWORD PTR [eax]',
    'addpd xmm0, xmm1', 'xorps xmm0, xmm0', 'shufps xmm1, xmm1, 0', 'unpcklps xmm0, xmm1', 'unpcklpd xmm0, xmm1', 'cvtsi2sd xmm0, ecx', 'cvtsi2ss xmm0, ecx', 'cvttsd2si ecx, xmm0',
    'cvtpi2ps xmm0, mm0', 'cvtss2sd xmm0, xmm1', 'cmpeqsd xmm1, xmm2', 'cmpltps xmm0, xmm1', 'ucomiss xmm0, xmm1', 'comisd xmm0, QWORD PTR [eax]', 'sqrtsd xmm0, xmm1',
    'prefetcht0 [ebx+64]', 'prefetchnta [eax]', 'lfence', 'mfence', 'sfence', 'emms', 'ldmxcsr DWORD PTR [eax]', 'stmxcsr DWORD PTR [eax]', 'movnti DWORD PTR [eax], ebx',
    'endbr32', 'notrack jmp eax', 'mov eax, OFFSET FLAT:.LC0', 'mov DWORD PTR [esp+20], OFFSET FLAT:toto', 'lea edi, toto[eax+1512]', 'mov eax, DWORD PTR A[0+eax*4]',
    'jz .LC0', 'call foo', 'mov eax, .LC0-.LC1',
]

# constant arithmetic inside operands (the term algebra dict_add / dict_sub / dict_mul of the Intel grammar); GNU as
# evaluates the same expressions and is the reference denotation
CONST_ARITH = []
for _ad in ('ebp+8-4', '8+ebp-4', 'ebp-8-4', 'ebp-8+4', 'ebx+esi*2+16-8', 'ebp+4+4', 'ebp+16-8-4', '16-8+ebp', 'ebp-4+16', 'eax*4+32-16',
            'ebp+0x10-0x8', '100-50', '4+4', 'esp+8-8', 'ebx+esi*2-4-4', 'ebp+2*4', 'ebp-2*4', 'ebp+8-2*2'):
    CONST_ARITH.append('mov eax, DWORD PTR [%s]' % _ad)
    CONST_ARITH.append('lea ecx, [%s]' % _ad)
for _im in ('16-8', '4+4', '16-8-4', '8-16', '5-2', '3-5', '2*4', '2*4-1', '0x10-0x8', '1+2+3', '10-1-2-3', '-4+8', '-4-4'):
    CONST_ARITH.append('add eax, %s' % _im)
    CONST_ARITH.append('mov cl, %s' % _im)
    CONST_ARITH.append('push %s' % _im)
# the six bracket productions of the Intel grammar ([e], sym[e], N[e], -N[e], N+sym[e], -N+sym[e]), with and without a
# constant inside the brackets
BRACKET_FORMS = []
for _ad in ('ebx', 'ebx+4', 'eax*4', 'ebx+esi*2', 'ebx+esi*2+8'):
    for _pre in ('', 'foo', '8', '-8', '8+foo', '-8+foo', '0x10+foo'):
        BRACKET_FORMS.append('mov eax, DWORD PTR %s[%s]' % (_pre, _ad))
        BRACKET_FORMS.append('lea ecx, %s[%s]' % (_pre, _ad))
BRACKET_FORMS += ['push 8+foo[ebx]', 'push -8+foo[ebx]', 'mov eax, [ebx+foo+8]', 'mov eax, [ebx+foo-8]', 'jmp 4+tab[eax*4]', 'call foo[ebx]', 'inc BYTE PTR 1+foo[ebx]']
CORPUS_INTEL = CORPUS_INTEL + CONST_ARITH + BRACKET_FORMS

CORPUS_ATT = [
    'nop', 'ret', 'ret $4', 'leave', 'cltd', 'cwtl', 'cbtw', 'cwtd', 'clc', 'std', 'pushal', 'popal', 'pushfl', 'popfl', 'int $3', 'ud2', 'pause',
    'movl %ebx, %eax', 'movb $1, %al', 'movw $0, %ax', 'movl $0x12345678, %eax', 'movl $-1, %eax', 'movl 12(%ebp), %eax', 'movl %eax, 8(%esp)', 'movb $-2, -9(%ebp)',
    'movw $0x1234, (%eax)', 'movl (%eax,%edx), %eax', 'movl (%ebx,%esi,4), %eax', 'movl (,%esi,8), %eax', 'movl 0x12345678(%ebp,%ecx,2), %eax', 'movl 0x1234, %eax',
    'movl %fs:(%eax), %eax', 'movl %gs:20, %eax', 'movb %es:4(%edi), %al', 'movl (%esp), %eax', 'movl 127(%eax), %eax', 'movl 128(%eax), %eax', 'movl -128(%eax), %eax',
    'movl -129(%eax), %eax', 'movw %ax, %ds', 'movl %cr0, %eax', 'movzbl %al, %eax', 'movzbl (%ebp,%ebx), %eax', 'movzwl (%eax), %eax', 'movsbl %al, %eax', 'movsbw 1(%edx), %si',
    'movswl (%ecx), %eax', 'leal (%eax,%edx), %ecx', 'leal (,%eax,4), %ebx', 'leal -8(%ebp), %eax', 'xchgl %edx, %eax', 'xaddl %edx, 8(%eax)', 'lock xaddl %edx, 8(%eax)', 'bswap %eax',
    'addl %ebx, %eax', 'addl $1, %eax', 'addl $127, %eax', 'addl $128, %eax', 'addl $-128, %eax', 'addl $-129, %eax', 'addb $5, %al', 'addw $17, %ax', 'addl $66, -4(%ebp)',
    'adcl $2, %ecx', 'subl $2, %ecx', 'sbbl $-1, %ebx', 'cmpb $-66, %al', 'cmpw $17, %ax', 'cmpl $-1, %eax', 'cmpl $255, %eax', 'andb $0x10, (%eax)', 'andl %edx, %eax', 'orl %edx, %eax',
    'xorl %edx, %edx', 'testb $120, %al', 'testl %eax, %eax', 'notl %edx', 'negl %ecx', 'incl %eax', 'decl (%eax)', 'shll $1, %eax', 'shll %cl, %eax', 'sarl %cl, %eax', 'shrl $31, %edx',
    'roll $6, %eax', 'rorl %cl, %eax', 'shldl $1, %ebp, %edi', 'shrdl %cl, %ebp, %edi', 'mull %ecx', 'imull %ebx, %eax', 'imull $200, %eax, %eax', 'divl %ecx', 'idivl 4(%esp)',
    'btl $5, %eax', 'bsfl %ebx, %eax', 'sete %al', 'setne 31(%esp)', 'cmove %ebx, %eax', 'cmovl (%ecx), %eax', 'pushl %eax', 'pushl $0', 'pushl $128', 'pushl (%eax)', 'pushl %es',
    'popl %ebx', 'call *%eax', 'call *(%eax)', 'call 0x10', 'jmp *%eax', 'jmp *0x1000(,%eax,4)', 'jmp 2', 'je 5', 'jne 0x1F', 'jg 2', 'jecxz 4', 'loop -2',
    'movsb', 'movsw', 'movsl', 'cmpsb', 'scasb', 'stosb', 'stosl', 'lodsb', 'rep movsl', 'rep stosb', 'repnz scasb', 'repz cmpsb', 'in (%dx), %al', 'in $4, %eax', 'out %al, (%dx)',
    'fld %st(0)', 'flds 732(%esp)', 'fldl 8(%esp)', 'fldt (%eax)', 'fst %st(1)', 'fstpl (%esp)', 'fstp %st(0)', 'fildl (%eax)', 'filds (%eax)', 'fistpl -4(%ebp)', 'fadd %st(1), %st',
    'fadd %st, %st(1)', 'fadds 56(%esp)', 'faddl 56(%esp)', 'faddp %st, %st(1)', 'fsub %st, %st(2)', 'fsubr %st, %st(2)', 'fsubp %st, %st(1)', 'fsubrp %st, %st(1)', 'fmul %st(1), %st',
    'fmulp %st, %st(1)', 'fdiv %st, %st(2)', 'fdivr %st, %st(2)', 'fdivl 32(%esi)', 'fdivrl 32(%esi)', 'fdivp %st, %st(1)', 'fdivrp %st, %st(1)', 'fchs', 'fsqrt', 'fxch %st(1)',
    'fucomi %st(1), %st', 'fcmovb %st(1), %st', 'fnstsw %ax', 'fnstcw (%eax)', 'fldcw (%eax)',
    'movd %eax, %mm0', 'movd %xmm1, %eax', 'movq %mm1, %mm0', 'movq %xmm1, %xmm0', 'movq (%eax), %mm0', 'paddd %mm1, %mm0', 'paddd %xmm1, %xmm0', 'pxor %xmm3, %xmm2', 'psllw $1, %xmm1',
    'psrld $1, %xmm1', 'pslldq $4, %xmm3', 'pshufd $0, %xmm0, %xmm0', 'movaps %xmm1, %xmm0', 'movaps %xmm1, 148(%ebx)', 'movss %xmm0, %xmm1', 'movsd (%eax), %xmm0', 'addps %xmm1, %xmm0',
    'addsd (%eax), %xmm0', 'xorps %xmm0, %xmm0', 'cvtsi2sd %ecx, %xmm0', 'cvttsd2si %xmm0, %ecx', 'ucomiss %xmm1, %xmm0', 'endbr32', 'notrack jmp *%eax',
]
