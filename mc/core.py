"""Explorer core: environment control, sharded exhaustive enumeration, evidence,
known findings, replay artefacts.  See DESIGN.md section 2."""
import os, sys, json, time, hashlib, signal, shutil, tempfile, atexit, subprocess, traceback
import multiprocessing
from collections import Counter

VERIF = os.path.dirname(os.path.dirname(os.path.abspath(__file__)))
REPO = os.environ.get('MIASMX_REPO', '/repo')
NPROC = int(os.environ.get('VERIF_JOBS', '0')) or min(16, os.cpu_count() or 1)
GUARD = 'MIASMX_VERIF'
SHARD_TIMEOUT = int(os.environ.get('VERIF_SHARD_TIMEOUT', '3000'))

_scratch = None


def scratch():
    """Private scratch directory (also the private PLY table cache)."""
    global _scratch
    if _scratch is None:
        base = '/dev/shm' if os.path.isdir('/dev/shm') and os.access('/dev/shm', os.W_OK) else None
        _scratch = tempfile.mkdtemp(prefix='miasmx-verif-', dir=base)
        pid = os.getpid()

        def _rm(d=_scratch, pid=pid):
            if os.getpid() == pid:
                shutil.rmtree(d, ignore_errors=True)
        atexit.register(_rm)
    return _scratch


def setup_env(warm_ply=True):
    """Own the nondeterminism: private TMPDIR (PLY cache), no .pyc into /repo,
    /repo's working tree first on sys.path, warm parser cache, sys.path restored."""
    os.environ[GUARD] = '1'
    os.environ['PYTHONDONTWRITEBYTECODE'] = '1'
    sys.dont_write_bytecode = True
    d = scratch()
    os.environ['TMPDIR'] = d
    tempfile.tempdir = d
    if sys.path[0] != REPO:
        sys.path.insert(0, REPO)
    if warm_ply:
        # a throw-away child populates the private cache, so that this process
        # always imports miasmX on a warm cache (the cold-cache effect is C12's business)
        env = dict(os.environ, PYTHONPATH=REPO)
        r = subprocess.run([sys.executable, '-c', 'import miasmx.arch.ia32_arch'],
                           env=env, stdout=subprocess.DEVNULL, stderr=subprocess.PIPE)
        if r.returncode != 0:
            sys.stderr.write(r.stderr.decode('utf8', 'replace')[-2000:])
            harness_error('cannot import miasmx.arch.ia32_arch from %s' % REPO)


def import_x86():
    import logging
    saved = list(sys.path)
    try:
        import miasmx.arch.ia32_arch as ia32_arch
    finally:
        sys.path[:] = saved
    logging.getLogger('x86escape').setLevel(100)
    for n in ('x86escape', 'expr_eval_int'):
        lg = logging.getLogger(n)
        lg.setLevel(100)
        lg.propagate = False
    return ia32_arch


class HarnessError(Exception):
    pass


def harness_error(msg):
    if multiprocessing.current_process().name != 'MainProcess':
        raise HarnessError(msg)          # a worker must not exit: the pool would wait for it forever
    sys.stdout.flush()
    sys.stderr.write('HARNESS-ERROR: %s\n' % msg)
    sys.stderr.flush()
    os._exit(2)


def h64(key):
    if not isinstance(key, (bytes, bytearray)):
        key = repr(key).encode('utf8', 'backslashreplace')
    return int.from_bytes(hashlib.blake2b(key, digest_size=8).digest(), 'little')


class Timeout(Exception):
    pass


def _alarm(signum, frame):
    raise Timeout()


class watchdog(object):
    """per-case watchdog; termination is part of several properties.  The budget is CPU time of this process
    (ITIMER_PROF), so a loaded or swapping machine cannot turn a terminating case into a timeout; a wall-clock alarm
    (15 min or 120x the budget) is the backstop for a case that blocks without consuming CPU."""
    def __init__(self, seconds=5):
        # budgets are generous (x4): a case that really loops is still found, memory pressure or page-fault storms are not
        self.s = seconds * int(os.environ.get('VERIF_WATCHDOG_SCALE', '4'))

    def __enter__(self):
        self.old = signal.signal(signal.SIGALRM, _alarm)
        self.oldp = signal.signal(signal.SIGPROF, _alarm)
        signal.setitimer(signal.ITIMER_PROF, self.s)
        signal.alarm(max(900, self.s * 120))      # wall-clock backstop only for a call that blocks without using CPU

    def __exit__(self, *a):
        signal.setitimer(signal.ITIMER_PROF, 0)
        signal.alarm(0)
        signal.signal(signal.SIGPROF, self.oldp)
        signal.signal(signal.SIGALRM, self.old)
        return False


class Part(object):
    """What one shard of an enumeration observed (picklable, mergeable)."""
    def __init__(self):
        self.n = 0                 # cases generated
        self.keys = set()          # digests of distinct cases that reached the comparison
        self.skips = Counter()
        self.viols = {}            # signature -> (size, what, witness)
        self.samples = []
        self.outcomes = set()      # digests of distinct observed outcomes
        self.counters = Counter()
        self.states = 0
        self.transitions = 0
        self.traces = 0

    def ok(self, key, outcome=None, sample=None):
        self.n += 1
        self.keys.add(key if isinstance(key, int) else h64(key))
        if outcome is not None:
            self.outcomes.add(outcome if isinstance(outcome, int) else h64(outcome))
        if sample is not None and len(self.samples) < 3:
            self.samples.append(sample)

    def skip(self, reason):
        self.n += 1
        self.skips[reason] += 1

    def violation(self, sig, what, witness, size=0):
        cur = self.viols.get(sig)
        if cur is None or size < cur[0]:
            self.viols[sig] = (size, what, witness)

    def merge(self, o):
        self.n += o.n
        self.keys |= o.keys
        self.skips.update(o.skips)
        for sig, v in o.viols.items():
            cur = self.viols.get(sig)
            if cur is None or v[0] < cur[0]:
                self.viols[sig] = v
        for s in o.samples:
            if len(self.samples) < 8:
                self.samples.append(s)
        self.outcomes |= o.outcomes
        self.counters.update(o.counters)
        self.states += o.states
        self.transitions += o.transitions
        self.traces += o.traces
        return self


def _shard_entry(a):
    func, shard, nshards, args = a
    try:
        return func(shard, nshards, *args)
    except Exception:
        return ('HARNESS', traceback.format_exc())


def isolated(f, *a):
    """f(*a) in a forked child (result pickled back): the call can neither see nor leave library state"""
    import pickle
    r, w = os.pipe()
    pid = os.fork()
    if pid == 0:
        os.close(r)
        try:
            data = pickle.dumps(('ok', f(*a)))
        except BaseException as ex:
            data = pickle.dumps(('exc', '%s: %s' % (type(ex).__name__, ex)))
        with os.fdopen(w, 'wb') as fh:
            fh.write(data)
        os._exit(0)
    os.close(w)
    with os.fdopen(r, 'rb') as fh:
        data = fh.read()
    os.waitpid(pid, 0)
    if not data:
        harness_error('isolated call died without a result')
    kind, val = pickle.loads(data)
    if kind == 'exc':
        harness_error('isolated call raised ' + val)
    return val


def run_sharded(func, args=(), nshards=None, procs=None):
    """Run func(shard, nshards, *args) -> Part for every shard, merge.
    func must be a module-level function.  Workers are forked from this process
    (miasmX already imported once)."""
    procs = procs or NPROC
    nshards = nshards or procs * 4
    total = Part()
    if procs == 1:
        for s in range(nshards):
            r = _shard_entry((func, s, nshards, args))
            if isinstance(r, tuple):
                harness_error(r[1])
            total.merge(r)
        return total
    ctx = multiprocessing.get_context('fork')
    sys.stdout.flush()
    # maxtasksperchild=1: every shard runs in a fresh fork of this process, so whatever state the library keeps between
    # calls cannot travel from one shard to the next (which shard a worker gets next depends on timing)
    with ctx.Pool(procs, maxtasksperchild=1) as pool:
        it = pool.imap_unordered(_shard_entry, [(func, s, nshards, args) for s in range(nshards)])
        for _ in range(nshards):
            try:
                r = it.next(timeout=SHARD_TIMEOUT)
            except multiprocessing.TimeoutError:
                pool.terminate()
                harness_error('a shard did not finish within %d s (worker died or hung)' % SHARD_TIMEOUT)
            if isinstance(r, tuple):
                pool.terminate()
                harness_error(r[1])
            total.merge(r)
    return total


# ---------------------------------------------------------------------------

def load_known():
    p = os.path.join(VERIF, 'known_findings.json')
    if not os.path.exists(p):
        return {'findings': [], 'fixed': []}
    with open(p) as f:
        return json.load(f)


def jsonable(x):
    if isinstance(x, (bytes, bytearray)):
        return x.hex()
    if isinstance(x, dict):
        return {str(k): jsonable(v) for k, v in x.items()}
    if isinstance(x, (list, tuple, set, frozenset)):
        return [jsonable(v) for v in x]
    if isinstance(x, (str, int, float, bool)) or x is None:
        return x
    return repr(x)


def finish(pid, tier, seed, t0, part, rule, level='exploration', exhaustive=True,
           assumptions=(), extra=None, space=None, explanation=None):
    """Write evidence, report violations / known findings, return the exit code."""
    known = load_known()
    ksigs = {}
    for k in known.get('findings', []):
        if k['property'] == pid and k.get('signature'):
            ksigs[k['signature']] = k
    import re
    kre = [(re.compile(k['signature_regex']), k) for k in known.get('findings', []) if k['property'] == pid and k.get('signature_regex')]
    new, hits = [], []
    fam_hits = {}
    for sig in sorted(part.viols):
        if sig in ksigs:
            hits.append(sig)
            continue
        for rx, k in kre:
            if rx.fullmatch(sig):
                fam_hits.setdefault(k['signature_regex'], [k, []])[1].append(sig)
                break
        else:
            new.append(sig)
    rdir = os.path.join(os.environ.get('VERIF_REPLAYS', os.path.join(VERIF, 'replays')), pid)
    lines = []
    for sig in hits:
        lines.append('KNOWN-FINDING: property=%s %s' % (pid, ksigs[sig].get('what', sig)))
    for rxs, (k, sigs) in sorted(fam_hits.items()):
        lines.append('KNOWN-FINDING: property=%s %s [%d sites, e.g. %s]' % (pid, k.get('what', rxs), len(sigs), sigs[0]))
        hits.extend(sigs)
    for sig in new:
        size, what, witness = part.viols[sig]
        os.makedirs(rdir, exist_ok=True)
        path = os.path.join(rdir, hashlib.sha1(sig.encode()).hexdigest()[:16] + '.json')
        with open(path, 'w') as f:
            json.dump({'property': pid, 'signature': sig, 'what': what,
                       'witness': jsonable(witness)}, f, indent=1, sort_keys=True)
        lines.append('VIOLATION property=%s replay=%s' % (pid, path))
        lines.append('  signature: %s' % sig)
        lines.append('  what: %s' % what)
    cov = {
        'evaluations': int(part.n),
        'distinct_nontrivial': len(part.keys),
        'rule': rule,
        'samples': jsonable(part.samples[:8]) or ['(no sample recorded)'],
        'exhaustive': bool(exhaustive),
        'skipped_by_reason': dict(part.skips),
        'distinct_outcomes': len(part.outcomes),
        'known_finding_hits': hits,
        'new_violation_signatures': new,
        'counters': dict(part.counters),
    }
    if space is not None:
        cov['declared_space'] = space
    if level == 'model_checking':
        cov['states'] = int(part.states)
        cov['transitions'] = int(part.transitions)
        cov['traces_validated_against_impl'] = int(part.traces)
    if explanation:
        cov['explanation'] = explanation
    if extra:
        cov.update(jsonable(extra))
    ev = {
        'property_id': pid, 'tier': tier, 'seed': int(seed), 'level': level,
        'coverage': cov, 'assumptions': list(assumptions),
        'wall_s': round(time.time() - t0, 3), 'violations': len(new),
    }
    try:
        import jsonschema
        with open('/root/.vp/EVIDENCE.schema.json') as f:
            jsonschema.validate(ev, json.load(f))
    except ImportError:
        pass
    except FileNotFoundError:
        pass
    except Exception as e:   # invalid evidence is a harness error, never silent
        harness_error('evidence does not validate: %s' % str(e)[:500])
    edir = os.environ.get('VERIF_EVIDENCE', os.path.join(VERIF, 'evidence'))
    os.makedirs(edir, exist_ok=True)
    tmp = os.path.join(edir, '.%s.json.tmp' % pid)
    with open(tmp, 'w') as f:
        json.dump(ev, f, indent=1, sort_keys=True)
    os.replace(tmp, os.path.join(edir, '%s.json' % pid))
    print('%s tier=%s seed=%s evaluations=%d distinct_nontrivial=%d outcomes=%d known_hits=%d new=%d wall=%.1fs' % (
        pid, tier, seed, part.n, len(part.keys), len(part.outcomes), len(hits), len(new), time.time() - t0))
    if level == 'model_checking':
        print('  states=%d transitions=%d traces_validated_against_impl=%d' % (part.states, part.transitions, part.traces))
    shown = 0
    for l in lines:
        if l.startswith('VIOLATION'):
            shown += 1
            if shown == 26:
                print('... %d more new violation signatures (replay files written for all)' % (len(new) - 25))
        if shown <= 25 or l.startswith('KNOWN-FINDING'):
            print(l[:400])
    sys.stdout.flush()
    return 1 if new else 0


class quiet_stdout(object):
    """miasmX prints diagnostics on stdout (PLY t_error, sidt, ppc asm); keep ours clean."""
    def __enter__(self):
        self.old = sys.stdout
        sys.stdout = open(os.devnull, 'w')

    def __exit__(self, *a):
        sys.stdout.close()
        sys.stdout = self.old
        return False
