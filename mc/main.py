import sys, os, json, time, importlib, argparse
from . import core


def main():
    ap = argparse.ArgumentParser()
    ap.add_argument('prop')
    ap.add_argument('--tier', default=os.environ.get('VERIF_TIER', 'quick'), choices=['quick', 'thorough'])
    ap.add_argument('--replay')
    a = ap.parse_args()
    try:
        seed = int(os.environ.get('VERIF_SEED', '0') or 0)
    except ValueError:
        seed = 0
    pid = a.prop.upper()
    try:
        mod = importlib.import_module('mc.props.%s' % pid.lower())
    except ImportError as e:
        core.harness_error('no check for %s (%s)' % (pid, e))
    core.setup_env(warm_ply=getattr(mod, 'NEEDS_X86', False))
    if a.replay:
        with open(a.replay) as f:
            rec = json.load(f)
        bad, text = mod.replay(rec['witness'])
        print(text)
        if bad:
            print('VIOLATION property=%s replay=%s' % (pid, a.replay))
            sys.exit(1)
        print('replay: property holds on this witness')
        sys.exit(0)
    try:
        rc = mod.run(a.tier, seed)
    except SystemExit:
        raise
    except BaseException:
        import traceback
        traceback.print_exc()
        core.harness_error('check %s crashed (harness error, not a verdict)' % pid)
    sys.stdout.flush()
    sys.exit(rc)


if __name__ == '__main__':
    main()
