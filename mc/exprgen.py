"""E(d): bottom-up enumeration of well-typed IR trees (neutral form, see irsem).
Everything is derived from two identifiers a, b of the base width w, so that at w = 8
all 2^16 valuations decide an expression.  Deterministic order, simplest first."""
from itertools import product
from .irsem import mask, width

ASSOC = ('+', '*', '^', '&', '|')
BIN = ('+', '-', '*', '&', '|', '^', '==')
SHIFT = ('<<', '>>', 'a>>', '<<<', '>>>')
UN = ('-', 'parity')
WIDTHS = (8, 16, 32, 64, 1)


def I(w, v):
    return ('int', w, v & mask(w))


def ID(name, w):
    return ('id', name, w)


def OP(op, *args):
    return ('op', op, tuple(args))


def SL(x, s, e):
    return ('slice', x, s, e)


def CO(*slots):
    return ('compose', tuple(slots))


def COND(c, x, y):
    return ('cond', c, x, y)


def MEM(a, size, segm=None):
    return ('mem', a, size, segm)


def consts(w, reduced=False):
    if w == 1:
        return [I(1, 0), I(1, 1)]
    if reduced:
        vs = [0, 1, 1 << (w - 1), mask(w)]
    else:
        vs = [0, 1, 2, 3, w - 1, w, (1 << (w - 1)) - 1, 1 << (w - 1), mask(w) - 1, mask(w)]
    out = []
    for v in vs:
        c = I(w, v)
        if c not in out:
            out.append(c)
    return out


def leaves(w, level='full', seed_consts=()):
    a, b = ID('a', w), ID('b', w)
    if level == 'full':
        return [a, b] + consts(w) + [I(w, v) for v in seed_consts]
    if level == 'mid':       # {a,b,0,1,2^(w-1),2^w-1}
        return [a, b] + consts(w, True)
    if level == 'red':       # {a,b,1,2^(w-1)}
        return [a, b, I(w, 1)] + ([I(w, 1 << (w - 1))] if w > 1 else [])
    if level == 'min':
        return [a, b, I(w, 1)]
    raise ValueError(level)


def cuts(w):
    return sorted(set(c for c in (0, 1, 4, 7, 8, w // 2, w - 1, w) if 0 <= c <= w))


def addr_of(w):
    """a 32-bit address expression built from a, b of width w"""
    a, b = ID('a', w), ID('b', w)
    if w == 32:
        return a
    if w == 64:
        return SL(a, 0, 32)
    if w == 16:
        return CO((a, 0, 16), (b, 16, 32))
    if w == 8:
        return CO((a, 0, 8), (b, 8, 16), (I(16, 0x0040), 16, 32))
    if w == 1:
        return CO((a, 0, 1), (b, 1, 2), (SL(I(32, 0x1000), 2, 32), 2, 32))
    raise ValueError(w)


def count_operands(w):
    """shift/rotate counts narrower than the value (the lifter's cl-style 8-bit count)"""
    if w in (16, 32, 64):
        return [SL(ID('b', w), 0, 8)] + [I(8, v) for v in (0, 1, 7, 8, 15, 16, 17, 31, 32, 33, 63, 64, 255)]
    return []


def slot_fill(w, k, off, L):
    """expressions of width k usable as a Compose slot (slices of leaves at offset off, constants)"""
    out = []
    for x in L:
        if x[0] == 'id':
            if k == w and off == 0:
                out.append(x)
            elif off + k <= w:
                out.append(SL(x, off, off + k))
    if k in (1, 8, 16, 32, 64):
        out.append(I(k, mask(k) - 1 if k > 1 else 1))
        out.append(I(k, 0))
    return out


def E1(w, level='full', seed_consts=()):
    """one operator over leaves, every operator kind"""
    L = leaves(w, level, seed_consts)
    Lr = leaves(w, 'red')
    out = []
    for op in BIN:
        for x, y in product(L, L):
            out.append(OP(op, x, y))
    for op in SHIFT:
        for x, y in product(L, L):
            out.append(OP(op, x, y))
        for x in L:
            for c in count_operands(w):
                out.append(OP(op, x, c))
    for op in UN:
        for x in L:
            out.append(OP(op, x))
    for op in ASSOC:
        for x, y, z in product(L if level != 'full' else leaves(w, 'mid'), repeat=3):
            out.append(OP(op, x, y, z))
        if level == 'full':
            for xs in product(Lr, repeat=4):
                out.append(OP(op, *xs))
    cs = cuts(w)
    for x in L:
        for i, s in enumerate(cs):
            for e in cs[i + 1:]:
                out.append(SL(x, s, e))
    # compose: 2 and 3 slots tiling [0,w), and concatenation of two leaves (width 2w)
    ids = [x for x in L if x[0] == 'id']
    inner = [c for c in cs if 0 < c < w]
    for k in inner:
        for lo in slot_fill(w, k, 0, ids) + slot_fill(w, k, w - k, ids):
            for hi in slot_fill(w, w - k, k, ids) + slot_fill(w, w - k, 0, ids):
                out.append(CO((lo, 0, k), (hi, k, w)))
    for i, k1 in enumerate(inner):
        for k2 in inner[i + 1:]:
            for s0 in slot_fill(w, k1, 0, ids[:1]):
                for s1 in slot_fill(w, k2 - k1, k1, ids):
                    for s2 in slot_fill(w, w - k2, k2, ids[:1]):
                        out.append(CO((s0, 0, k1), (s1, k1, k2), (s2, k2, w)))
    if 2 * w <= 64:
        for x, y in product(Lr, Lr):
            out.append(SL(CO((x, 0, w), (y, w, 2 * w)), w // 2, w // 2 + w))
    Lc = L if level != 'full' else leaves(w, 'mid')
    for c, x, y in product(Lc, Lc, Lc):
        out.append(COND(c, x, y))
    if w > 1:
        for x in L[:2]:
            out.append(COND(SL(x, w - 1, w), L[1], L[0]))
    ad = addr_of(w)
    if w in (8, 16, 32, 64):
        out.append(MEM(ad, w))
        out.append(MEM(ad, w, ID('ds', 16)))
        out.append(MEM(OP('+', ad, I(32, 1)), w))
    return out


def same_width(ts, w):
    return [t for t in ts if _w(t) == w]


def _w(t):
    try:
        return width(t)
    except Exception:
        return None


def E2(w, child_level='red', leaf_level='mid', pairs='full'):
    """(i) every root operator with one child from E1 and the other operands leaves, in every
    position; (ii) every binary root over two non-leaf children from the smallest E1"""
    C = same_width(E1(w, child_level), w)
    L = leaves(w, leaf_level)
    for op in BIN + SHIFT:
        for c in C:
            for x in L:
                yield OP(op, c, x)
                yield OP(op, x, c)
    for op in UN:
        for c in C:
            yield OP(op, c)
    Cm = same_width(E1(w, 'min'), w)
    Lr = leaves(w, 'red')
    for op in ASSOC:
        for c in Cm:
            for x, y in product(Lr, Lr):
                yield OP(op, c, x, y)
                yield OP(op, x, c, y)
                yield OP(op, x, y, c)
    cs = cuts(w)
    for c in C:
        for i, s in enumerate(cs):
            for e in cs[i + 1:]:
                yield SL(c, s, e)
    for c in C:
        for x in Lr:
            yield COND(c, x, L[0])
            yield COND(x, c, L[1])
            yield COND(x, L[1], c)
    # compose with one computed slot
    for c in C:
        for k in (x for x in cs if 0 < x < w):
            yield CO((SL(c, 0, k), 0, k), (SL(ID('b', w), k, w), k, w))
            yield CO((SL(ID('a', w), 0, k), 0, k), (SL(c, k, w), k, w))
    if w in (8, 16, 32, 64):
        ad = addr_of(w)
        for c in C:
            if w == 32:
                yield MEM(c, 32)
                yield MEM(c, 8)
            yield OP('+', MEM(ad, w), c)
    # (ii)
    B = [t for t in Cm if t[0] == 'op' and len(t[2]) <= 2 and all(x[0] in ('id', 'int') and (x[0] == 'id' or x[1] == w) for x in t[2])]
    if pairs == 'small':
        B = [t for t in B if t[2][0][0] == 'id']
    for op in BIN + SHIFT:
        for x, y in product(B, B):
            yield OP(op, x, y)


def targeted(w):
    """rule-targeted family: the left-hand side of every rewrite rule of the simplifier with
    every choice of leaves, so that each side condition is hit on both sides of its boundary"""
    a, b = ID('a', w), ID('b', w)
    A = [a, OP('+', a, b), OP('^', a, b)]
    m = mask(w)
    cvals = range(256) if w == 8 else sorted(set([0, 1, 2, 3, 4, 7, 8, 15, 16, 31, 32, 63, 64, 127, 128, 255, 256, m >> 1, (m >> 1) + 1, m - 1, m]))
    cvals = [v for v in cvals if v <= m]
    svals = [v for v in (list(range(0, 11)) + [w - 1, w, w + 1, 2 * w]) if v <= m]
    # T1  ((A & mask) >> shift), both operand orders, 3-ary &
    for x in A:
        for mk in cvals:
            for s in svals:
                yield OP('>>', OP('&', x, I(w, mk)), I(w, s))
                yield OP('>>', OP('&', I(w, mk), x), I(w, s))
        for mk in (1, 2, 4, 8, 0x10, 0x7f, 0x80, m):
            for s in svals:
                yield OP('>>', OP('&', x, b, I(w, mk)), I(w, s))
                yield OP('<<', OP('&', x, I(w, mk)), I(w, s))
                yield OP('a>>', OP('&', x, I(w, mk)), I(w, s))
    # T2  (A | k) == 0 and relatives
    for x in A:
        for k in cvals[:16] + cvals[-3:]:
            yield OP('==', OP('|', x, I(w, k)), I(w, 0))
            yield OP('==', I(w, 0), OP('|', x, I(w, k)))
            yield OP('==', OP('|', I(w, k), x), I(w, 0))
            yield OP('==', OP('|', x, I(w, k)), I(w, 1))
            yield OP('==', OP('|', x, b, I(w, k)), I(w, 0))
            yield OP('==', OP('&', x, I(w, k)), I(w, 0))
            yield OP('==', OP('|', x, OP('&', b, I(w, k))), I(w, 0))
    # T9  constant shifts and folds: every pair
    for c1 in cvals:
        for c2 in svals:
            for op in ('<<', '>>', 'a>>', '<<<', '>>>'):
                yield OP(op, I(w, c1), I(w, c2))
    for c1 in cvals[::5]:
        for c2 in cvals[::7]:
            for op in BIN:
                yield OP(op, I(w, c1), I(w, c2))
            yield OP('+', a, I(w, c1), I(w, c2))
            yield OP('<<', OP('<<', a, I(w, c1 & 7)), I(w, c2 & 7))
    # T10 subtraction shapes
    z = I(w, 0)
    for x in A:
        for y in [z, I(w, 1), a, b, OP('-', a), OP('-', b), OP('+', a, b)]:
            yield OP('-', x, y)
            yield OP('-', y, x)
            yield OP('+', x, OP('-', y))
            yield OP('+', OP('-', y), x)
            yield OP('-', OP('-', x, y), b)
            yield OP('-', b, OP('-', x, y))
            yield OP('-', OP('+', x, y))
            yield OP('-', OP('-', OP('-', x)))
            yield OP('+', x, y, OP('-', x))
            yield OP('+', OP('-', x), y, x)
            yield OP('^', x, y, x)
            yield OP('|', x, y, x)
            yield OP('&', x, y, x)
    # T6  rotate merging
    rc = [I(w, v) for v in (0, 1, 2, 3, w - 1, w, w + 1) if v <= m] + [b] + count_operands(w)[:4]
    for o1 in ('<<<', '>>>'):
        for o2 in ('<<<', '>>>'):
            for x, y in product(rc, rc):
                yield OP(o2, OP(o1, a, x), y)
        for x, y, z2 in product(rc[:5], rc[:5], rc[:3]):
            yield OP(o1, OP(o1, OP('>>>', a, x), y), z2)
    for o1 in ('<<', '>>', 'a>>'):
        for o2 in ('<<', '>>', 'a>>'):
            for x, y in product(rc[:6], rc[:6]):
                yield OP(o2, OP(o1, a, x), y)
    # T4  slice of slice, slice of compose, slice of int, slice of mem
    cs = list(range(0, w + 1)) if w == 8 else cuts(w)
    for x in A[:2] + [I(w, 0xA5C3F00F96 & m)]:
        for i, s1 in enumerate(cs):
            for e1 in cs[i + 1:]:
                n1 = e1 - s1
                yield SL(x, s1, e1)
                for s2 in range(0, n1) if w == 8 else [c for c in cuts(n1) if c < n1]:
                    for e2 in range(s2 + 1, n1 + 1) if w == 8 else [c for c in cuts(n1) if c > s2]:
                        yield SL(SL(x, s1, e1), s2, e2)
    # T3/T5  compose tilings with slices/ints, then every slice of them
    ids = [a, b]
    inner = [c for c in (range(1, w) if w == 8 else cuts(w)) if 0 < c < w]
    for k in inner:
        los = slot_fill(w, k, 0, ids) + slot_fill(w, k, w - k, ids[:1]) + slot_fill(w, k, 1, ids[:1])
        his = slot_fill(w, w - k, k, ids) + slot_fill(w, w - k, 0, ids[:1])
        for lo, hi in product(los, his):
            co = CO((lo, 0, k), (hi, k, w))
            yield co
            yield CO((hi, k, w), (lo, 0, k))
            for i, s in enumerate(cuts(w)):
                for e in cuts(w)[i + 1:]:
                    yield SL(co, s, e)
            if k > 1:
                yield SL(co, k - 1, k)
            if k + 1 <= w:
                yield SL(co, k - 1 if k > 0 else 0, k + 1)
    for k1 in inner:
        for k2 in inner:
            if k2 <= k1:
                continue
            for s0, s1, s2 in product(slot_fill(w, k1, 0, ids[:1])[:2] + slot_fill(w, k1, 0, ids[:1])[-2:],
                                      slot_fill(w, k2 - k1, k1, ids) + slot_fill(w, k2 - k1, 0, ids[1:]),
                                      slot_fill(w, w - k2, k2, ids[:1])):
                co = CO((s0, 0, k1), (s1, k1, k2), (s2, k2, w))
                yield co
                yield SL(co, 0, k2)
                yield SL(co, k1, w)
                yield SL(co, k1, k2)
    # T6b three-part concatenations whose parts are slices of ONE source with identical / overlapping / shifted source ranges
    if w >= 8:
        cs3 = [c for c in cuts(w) if 0 < c < w]
        for c in cs3:
            for d in cs3:
                if c >= d:
                    continue
                slots = [(0, c), (c, d), (d, w)]
                opts = []
                for (s0, e0) in slots:
                    k = e0 - s0
                    cand = set(x for x in (s0, 0, c, d, w - k) if 0 <= x and x + k <= w)
                    opts.append(sorted(cand))
                wd = [e0 - s0 for s0, e0 in slots]
                for pat in ('xkk', 'kkx', 'kxk', 'kkk', 'xxk', 'kxx'):
                    if any(ch == 'k' and k not in (1, 8, 16, 32, 64) for ch, k in zip(pat, wd)):
                        continue        # no ExprInt type of that width
                    parts = []
                    for ch, (s0, e0), k in zip(pat, slots, wd):
                        parts.append(((SL(a, s0, e0) if ch == 'x' else I(k, (0x1122334455667788 >> (s0 % 24)) & ((1 << k) - 1) | 1)), s0, e0))
                    yield CO(*parts)
                for starts in product(*opts):
                    if starts == tuple(s0 for s0, e0 in slots) and False:
                        continue
                    yield CO(*[(SL(a, st, st + (e0 - s0)), s0, e0) for st, (s0, e0) in zip(starts, slots)])
    # T7  conditionals
    for c in [OP('-', a), I(w, 0), I(w, 1), I(w, m), OP('-', OP('-', a)), OP('==', a, b), SL(a, w - 1, w) if w > 1 else a,
              COND(a, I(w, 0), I(w, 1)), OP('-', I(w, 0)), OP('^', a, a)]:
        for x, y in product(A[:2] + [I(w, 0), I(w, 3 & m)], repeat=2):
            yield COND(c, x, y)
            yield OP('+', COND(c, x, y), b)
    # T8  memory: slice of mem, mem of simplifiable address, segmented
    if w in (8, 16, 32, 64):
        ad = addr_of(w)
        for size in (8, 16, 32, 64):
            mm = MEM(ad, size)
            yield mm
            for s, e in ((0, 8), (0, 16), (8, 16), (0, 32), (8, 24), (0, size), (0, 1), (size - 8, size)):
                if e <= size and s < e:
                    yield SL(mm, s, e)
                    yield SL(MEM(ad, size, ID('fs', 16)), s, e)
            yield MEM(OP('+', ad, I(32, 0)), size)
            yield MEM(OP('+', OP('+', ad, I(32, 4)), I(32, 0xfffffffc)), size)
            yield MEM(OP('-', ad, I(32, 0)), size)
            yield MEM(MEM(ad, 32), size)
            # a segmented cell whose address (or an enclosing node) is rewritten must stay the same cell
            for seg in (ID('fs', 16), ID('ds', 16)):
                yield MEM(OP('+', ad, I(32, 0)), size, seg)
                yield MEM(OP('+', OP('+', ad, I(32, 4)), I(32, 0xfffffffc)), size, seg)
                yield MEM(MEM(OP('+', ad, I(32, 0)), 32, seg), size)
                yield MEM(MEM(OP('+', ad, I(32, 0)), 32), size, seg)
                if size == w:
                    yield OP('^', MEM(OP('+', ad, I(32, 0)), size, seg), MEM(ad, size))
                    yield OP('-', MEM(OP('+', ad, I(32, 0)), size, seg), MEM(ad, size, seg))
                    yield COND(MEM(OP('+', ad, I(32, 0)), size, seg), MEM(ad, size), MEM(ad, size, seg))
            yield CO((SL(mm, 0, 8), 0, 8), (SL(mm, 8, size), 8, size)) if size > 8 else mm
    # parity shapes
    for x in A + [I(w, v) for v in cvals[:40]]:
        yield OP('parity', x)
        if w > 8:
            yield OP('parity', OP('&', x, I(w, 0xff)))


def valuation_lanes(w, seed=0, np=None):
    """(a, b) lane arrays: all 2^16 pairs at w=8, all 4 at w=1, boundary product elsewhere"""
    import numpy as np
    if w == 8:
        return (np.repeat(np.arange(256, dtype=np.uint64), 256), np.tile(np.arange(256, dtype=np.uint64), 256))
    if w == 1:
        return (np.array([0, 0, 1, 1], dtype=np.uint64), np.array([0, 1, 0, 1], dtype=np.uint64))
    import random
    m = mask(w)
    vs = set([0, 1, 2, 3, w - 1, w, w + 1, m >> 1, (m >> 1) + 1, m - 1, m, 0x123456789abcdef0 & m, 0xdeadbeefcafebabe & m,
              0x5555555555555555 & m, 0xaaaaaaaaaaaaaaaa & m])
    for k in (4, 7, 8, 15, 16, 31, 32, 63):
        if k < w:
            vs.update([1 << k, (1 << k) - 1, m ^ ((1 << k) - 1)])
    r = random.Random(seed * 7919 + w)
    vs.update([r.getrandbits(w), r.getrandbits(w)])
    vs = sorted(vs)
    return (np.array([x for x in vs for y in vs], dtype=np.uint64), np.array([y for x in vs for y in vs], dtype=np.uint64))


# ---------------------------------------------------------------------------
# single-point structural mutants (same width as the original, well-typed)

def mutants(t, depth=3):
    """trees that differ from t at exactly one point and have the same width"""
    k = t[0]
    w = _w(t)
    if k == 'int':
        yield I(t[1], t[2] + 1)
        if t[1] > 1:
            yield I(t[1], t[2] ^ (1 << (t[1] - 1)))
    elif k == 'id':
        yield ID('b' if t[1] != 'b' else 'a', t[2])
    elif k == 'mem':
        yield MEM(t[1], t[2], ID('fs', 16) if t[3] is None else None)
        if t[3] is not None:
            yield MEM(t[1], t[2], ID('gs', 16))
        yield MEM(OP('+', t[1], I(32, 1)), t[2], t[3])
    elif k == 'op':
        op, args = t[1], t[2]
        for grp in (BIN[:6], SHIFT, ('-', 'parity')):
            if op in grp and (op not in ('-',) or len(args) in (1, 2)):
                for o2 in grp:
                    if o2 != op and not (o2 == '-' and len(args) > 2) and not (len(args) == 1 and o2 not in UN) \
                            and not (len(args) == 2 and o2 == 'parity'):
                        yield OP(o2, *args)
        if op in ASSOC:
            yield OP(op, *(args + (I(w, 1),)))
            yield OP(op, *(args + (args[0],)))
            if len(args) > 2:
                yield OP(op, *args[:-1])
        if len(args) == 2 and args[0] != args[1] and _w(args[0]) == _w(args[1]):
            yield OP(op, args[1], args[0])
    elif k == 'slice':
        aw = _w(t[1])
        if t[3] + 1 <= aw:
            yield SL(t[1], t[2] + 1, t[3] + 1)
        if t[2] > 0:
            yield SL(t[1], t[2] - 1, t[3] - 1)
    elif k == 'compose':
        sl = t[1]
        for i in range(len(sl)):
            for j in range(i + 1, len(sl)):
                if sl[i][2] - sl[i][1] == sl[j][2] - sl[j][1] and sl[i][0] != sl[j][0]:
                    n = list(sl)
                    n[i] = (sl[j][0], sl[i][1], sl[i][2])
                    n[j] = (sl[i][0], sl[j][1], sl[j][2])
                    yield ('compose', tuple(n))
    elif k == 'cond':
        if t[2] != t[3]:
            yield COND(t[1], t[3], t[2])
        yield COND(OP('-', t[1]) if t[1][0] != 'int' else I(t[1][1], t[1][2] + 1), t[2], t[3])
    if depth <= 0:
        return
    # one child mutated
    if k == 'mem':
        for m in mutants(t[1], depth - 1):
            yield MEM(m, t[2], t[3])
    elif k == 'op':
        for i, a in enumerate(t[2]):
            for m in mutants(a, depth - 1):
                yield OP(t[1], *(t[2][:i] + (m,) + t[2][i + 1:]))
    elif k == 'slice':
        for m in mutants(t[1], depth - 1):
            yield SL(m, t[2], t[3])
    elif k == 'compose':
        for i, (a, s, e) in enumerate(t[1]):
            for m in mutants(a, depth - 1):
                yield ('compose', t[1][:i] + ((m, s, e),) + t[1][i + 1:])
    elif k == 'cond':
        for i in (1, 2, 3):
            for m in mutants(t[i], depth - 1):
                yield t[:i] + (m,) + t[i + 1:]


def exemplars(w):
    """one or more exemplars of every node kind / operator class at width w (non-leaf)"""
    a, b = ID('a', w), ID('b', w)
    c3 = I(w, 3)
    out = [OP('+', a, b), OP('+', a, b, c3), OP('*', a, b), OP('*', a, b, c3), OP('&', a, b), OP('&', a, b, I(w, 0xF & mask(w))),
           OP('|', a, c3), OP('^', a, b), OP('-', a), OP('-', OP('+', a, b)), OP('<<', a, b), OP('>>', a, I(w, 1)),
           OP('a>>', a, I(w, 1)), OP('<<<', a, b), OP('>>>', a, I(w, 1)), OP('==', a, b), OP('parity', a),
           COND(a, b, c3), COND(OP('==', a, b), a, b)]
    if w >= 8:
        out += [SL(CO((a, 0, w), (b, w, 2 * w)), 4, 4 + w)] if 2 * w <= 64 else []
        out += [CO((SL(a, 0, 4), 0, 4), (SL(b, 4, w), 4, w)), CO((SL(a, 0, 4), 0, 4), (SL(a, 4, w), 4, w)),
                CO((SL(b, 0, w // 2), 0, w // 2), (SL(a, 0, w // 2), w // 2, w))]
        ad = addr_of(w)
        out += [MEM(ad, w), MEM(ad, w, ID('ds', 16)), MEM(OP('+', ad, I(32, 4)), w)]
        if w > 8:
            out += [SL(MEM(ad, 2 * w if 2 * w <= 64 else w), 0, w)] if 2 * w <= 64 else []
    return out


def near_equal(w):
    """T11: the equality-based cancellation rules (A^A, A+(-A), (-A)+A, A|A, A&A, A==A) fed with
    twins that differ at exactly one point -- they must NOT cancel -- and with equal operands"""
    a, b = ID('a', w), ID('b', w)
    for A in exemplars(w):
        tw = [A]
        seen = set([A])
        for m in mutants(A, 2):
            if m not in seen and _w(m) == w:
                seen.add(m)
                tw.append(m)
        for B in tw:
            yield OP('^', A, B)
            yield OP('^', B, A)
            yield OP('+', A, OP('-', B))
            yield OP('+', OP('-', B), A)
            yield OP('-', A, B)
            yield OP('|', A, B)
            yield OP('&', A, B)
            yield OP('==', A, B)
            yield OP('^', A, b, B)
            yield OP('+', A, b, OP('-', B))
            yield COND(OP('==', A, B), a, b)


def eq_twins(t):
    """structural neighbours that may change the width: used to probe == / hash (prefix argument
    lists, dropped slots, other sizes); one point of difference each"""
    k = t[0]
    if k == 'int':
        for w2 in (1, 8, 16, 32, 64):
            if w2 != t[1] and t[2] <= mask(w2):
                yield I(w2, t[2])
    elif k == 'id':
        yield ('id', t[1], 16 if t[2] != 16 else 32)
        yield ('id', t[1], t[2], False, True)
        yield ('id', t[1], t[2], True, False)
        yield ('id', t[1], t[2], True, True)
    elif k == 'mem':
        for s2 in (8, 16, 32, 64):
            if s2 != t[2]:
                yield MEM(t[1], s2, t[3])
    elif k == 'op':
        if len(t[2]) >= 2:
            yield ('op', t[1], t[2][:-1])
            yield ('op', t[1], t[2][1:])
        yield ('op', t[1], t[2] + (t[2][-1],))
        yield ('op', t[1], t[2] + (I(_w(t[2][0]) if _w(t[2][0]) in (1, 8, 16, 32, 64) else 8, 0),))
    elif k == 'slice':
        if t[3] - 1 > t[2]:
            yield SL(t[1], t[2], t[3] - 1)
        if t[2] + 1 < t[3]:
            yield SL(t[1], t[2] + 1, t[3])
    elif k == 'compose':
        if len(t[1]) >= 2:
            yield ('compose', t[1][:-1])
            yield ('compose', t[1][1:])
        last = t[1][-1]
        yield ('compose', t[1] + ((last[0], last[2], last[2] + (last[2] - last[1])),))
    elif k == 'cond':
        yield OP('+', t[1], t[2], t[3]) if _w(t[1]) == _w(t[2]) else COND(t[1], t[2], t[2])
