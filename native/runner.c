/* R4 - the host CPU as reference.  Freestanding 32-bit static ELF (no libc):
 *   gcc -m32 -O1 -nostdlib -ffreestanding -static -fno-stack-protector -fno-pie -no-pie -o runner runner.c
 * stdin : records  { u8 code[16]; u32 len; u32 regs[8] (eax ecx edx ebx esp ebp esi edi); u32 eflags; u8 fx[512]; u8 mem[256]; u32 segs[3] (es fs gs); }
 * stdout: results  { u32 sig; u32 regs[8]; u32 eip; u32 eflags; u8 fx[512]; u8 mem[256]; u32 segs[5] (gs fs es ds ss); }
 * Segment registers: es/fs/gs are loaded from the record (they must be loadable selectors); ds/ss are the process's flat
 * user data segment.  The kernel reloads ds/es on signal delivery, so an instruction may leave any loadable value there.
 * The instruction is copied to CODE+0x800 inside a page of int3; the data window is DATA+0x700..0x800.
 * After the instruction the CPU hits an int3 (SIGTRAP): the landing address is the control-flow outcome.
 */
typedef unsigned int u32;
typedef unsigned char u8;

#define CODE 0x10000000u
#define DATA 0x20000000u
#define ALTSTK 0x30000000u

struct rec { u8 code[16]; u32 len; u32 regs[8]; u32 eflags; u8 fx[512]; u8 mem[256]; u32 segs[3]; };
struct res { u32 sig; u32 regs[8]; u32 eip; u32 eflags; u8 fx[512]; u8 mem[256]; u32 segs[5]; };

static long sys3(long n, long a, long b, long c)
{
    long r;
    __asm__ volatile("int $0x80" : "=a"(r) : "0"(n), "b"(a), "c"(b), "d"(c) : "memory");
    return r;
}

static long sys6(long n, long a, long b, long c, long d, long e, long f)
{
    long r;
    /* mmap2: ebx ecx edx esi edi ebp */
    __asm__ volatile(
        "push %%ebp\n\t"
        "mov %7, %%ebp\n\t"
        "int $0x80\n\t"
        "pop %%ebp"
        : "=a"(r) : "0"(n), "b"(a), "c"(b), "d"(c), "S"(d), "D"(e), "g"(f) : "memory");
    return r;
}

static void readall(void *p, u32 n, int *eof)
{
    u8 *q = p;
    while (n) {
        long r = sys3(3, 0, (long)q, n);
        if (r <= 0) { *eof = 1; return; }
        q += r; n -= r;
    }
}

static void writeall(const void *p, u32 n)
{
    const u8 *q = p;
    while (n) {
        long r = sys3(4, 1, (long)q, n);
        if (r <= 0) sys3(1, 3, 0, 0);
        q += r; n -= r;
    }
}

struct rec g_in __attribute__((aligned(16)));
struct res g_out __attribute__((aligned(16)));
u32 saved_esp, saved_ebp, cont_addr;
u8 fxin[512] __attribute__((aligned(16)));

struct ksigaction { void *handler; unsigned long flags; void *restorer; unsigned long mask[2]; };

/* classic i386 signal frame: [pretcode][sig][sigcontext ...] */
void c_handler(u32 sig, u32 *sc)
{
    /* sigcontext: gs fs es ds edi esi ebp esp ebx edx ecx eax trapno err eip cs eflags esp_at_signal ss fpstate oldmask cr2 */
    g_out.sig = sig;
    g_out.regs[0] = sc[11]; g_out.regs[1] = sc[10]; g_out.regs[2] = sc[9]; g_out.regs[3] = sc[8];
    g_out.regs[4] = sc[7];  g_out.regs[5] = sc[6];  g_out.regs[6] = sc[5]; g_out.regs[7] = sc[4];
    g_out.eip = sc[14];
    g_out.eflags = sc[16];
    g_out.segs[0] = sc[0] & 0xffff; g_out.segs[1] = sc[1] & 0xffff; g_out.segs[2] = sc[2] & 0xffff;
    g_out.segs[3] = sc[3] & 0xffff; g_out.segs[4] = sc[18] & 0xffff;
    u8 *fp = (u8 *)sc[19];
    int i;
    if (fp) for (i = 0; i < 512; i++) g_out.fx[i] = fp[112 + i];
    else for (i = 0; i < 512; i++) g_out.fx[i] = 0;
}

__asm__(
    ".text\n"
    ".globl handler_entry\n"
    "handler_entry:\n"
    "  mov 4(%esp), %eax\n"
    "  lea 8(%esp), %edx\n"
    "  mov saved_esp, %esp\n"
    "  mov saved_ebp, %ebp\n"
    "  push %edx\n"
    "  push %eax\n"
    "  call c_handler\n"
    "  add $8, %esp\n"
    "  jmp *cont_addr\n"
);
extern void handler_entry(void);

static void install(int sig)
{
    struct ksigaction sa;
    sa.handler = (void *)handler_entry;
    sa.flags = 0x40000000u /* SA_NODEFER */ | 0x08000000u /* SA_ONSTACK */;
    sa.restorer = 0;
    sa.mask[0] = sa.mask[1] = 0;
    sys6(174, sig, (long)&sa, 0, 8, 0, 0);
}

void _start(void)
{
    /* mmap2(addr, len, PROT_RWX=7 / RW=3, MAP_PRIVATE|MAP_ANONYMOUS|MAP_FIXED=0x32, -1, 0) */
    sys6(192, CODE, 4096, 7, 0x32, -1, 0);
    sys6(192, DATA, 4096, 3, 0x32, -1, 0);
    sys6(192, ALTSTK, 65536, 3, 0x32, -1, 0);
    struct { void *sp; int flags; u32 size; } ss = { (void *)ALTSTK, 0, 65536 };
    sys3(186, (long)&ss, 0, 0);
    install(5); install(11); install(8); install(4); install(7);
    int eof = 0;
    for (;;) {
        readall(&g_in, sizeof g_in, &eof);
        if (eof) break;
        u8 *code = (u8 *)CODE, *data = (u8 *)DATA;
        u32 i;
        for (i = 0; i < 4096; i++) code[i] = 0xCC;
        for (i = 0; i < g_in.len && i < 16; i++) code[0x800 + i] = g_in.code[i];
        for (i = 0; i < 4096; i++) data[i] = 0x5A;
        for (i = 0; i < 256; i++) data[0x700 + i] = g_in.mem[i];
        for (i = 0; i < 512; i++) fxin[i] = g_in.fx[i];
        __asm__ volatile(
            "movl $1f, cont_addr\n\t"
            "mov %%esp, saved_esp\n\t"
            "mov %%ebp, saved_ebp\n\t"
            "fxrstor fxin\n\t"
            "movw g_in+824, %%es\n\t"
            "movw g_in+828, %%fs\n\t"
            "movw g_in+832, %%gs\n\t"
            "movl $g_in+20, %%esi\n\t"       /* esi -> record regs */
            "pushl 32(%%esi)\n\t"
            "popfl\n\t"
            "mov 0(%%esi), %%eax\n\t"
            "mov 4(%%esi), %%ecx\n\t"
            "mov 8(%%esi), %%edx\n\t"
            "mov 12(%%esi), %%ebx\n\t"
            "mov 16(%%esi), %%esp\n\t"
            "mov 20(%%esi), %%ebp\n\t"
            "mov 28(%%esi), %%edi\n\t"
            "mov 24(%%esi), %%esi\n\t"
            "jmp *jump_target\n\t"
            "1:\n\t"
            : : : "eax", "ebx", "ecx", "edx", "esi", "edi", "memory", "cc");
        for (i = 0; i < 256; i++) g_out.mem[i] = data[0x700 + i];
        writeall(&g_out, sizeof g_out);
    }
    sys3(1, 0, 0, 0);
}

u32 jump_target = CODE + 0x800;
