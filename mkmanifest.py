#!/usr/bin/env python3
"""Regenerates MANIFEST.json from the table below (kept in one place so it stays valid)."""
import json, os
V = os.path.dirname(os.path.abspath(__file__))
props = [json.loads(l) for l in open(os.path.join(V, 'properties.jsonl'))]

# id -> (category, technique, text, note, design_ref)
CHECKS = {
 'C14': ('exploration', 'bounded exhaustive enumeration against a reference model (Python integers mod 2^n)',
         'Every operator x every ordered pair of the 11 fixed-width types x all 2^16 value pairs at 8 bits and the full '
         'product of the boundary sets at every other width pair, direct and reflected, is executed on the real modint '
         'classes and compared with exact integer arithmetic; complete inside the stated alphabet, nothing sampled.',
         'Trusts Python integer arithmetic. Values outside the 8-bit and boundary alphabets are not covered.', '4 C14'),
}
CHECKS.update({
 'C05': ('exploration', 'bounded exhaustive enumeration of well-typed trees against a reference IR interpreter',
         'Every well-typed tree of the families E1 (every operator over every leaf tuple), T (the left-hand side of each rewrite rule '
         'with every leaf/constant choice on both sides of its side condition), N (cancellation rules fed with all single-point twins) '
         'and E2 (depth 2) at widths 1/8/16/32/64 is simplified by the real expr_simp on fresh objects and compared with irsem on all '
         '2^16 valuations (w=8) or the full boundary product (a segment selector selects a different address space); termination under a CPU-time watchdog; the argument must stay unmodified.',
         'Trusts mc/irsem.py (cross-checked against big-int arithmetic at start-up). Valuations exhaustive only at widths 8 and 1; depth <= 2 plus targeted depth 3.', '4 C05'),
 'C15': ('exploration', 'bounded exhaustive enumeration (all nodes, all ordered pairs, all replacement maps of a pool) against structural/semantic reference',
         'Pool with every node kind, segmented memory, assignments, flagged identifiers, and all single-point mutants/twins of the exemplars: '
         'unary laws on every node, the full equality matrix over all ordered pairs (symmetric, transitive, == xor !=, equal => equal hash '
         'and equal irsem value), every replacement map with |d| <= 2 over the sub-terms against reference substitution, chained maps whose keys are matched only by rebuilt nodes (1..4 chained keys x 0..3 further rebuilt operands), canonize value.',
         'Trusts irsem and the neutral-tree walker; segment override treated as a different address space.', '4 C15'),
 'C16': ('exploration', 'bounded exhaustive enumeration: dependency probing on the full valuation grid + reference unifier',
         'For every tree of the read-set family the real dependence on each identifier / memory cell is decided on the complete valuation '
         'grid and must be reported by get_r (both mem_read modes); get_w names the destination. Every (pattern, binding) instance and every '
         'single-point mutant of it (bindings incl. the wildcard identifiers themselves), and every pair of 2-/3-slot concatenation tilings with bare wildcard parts, is matched by the real MatchExpr and compared with a reference unifier; read sets are queried in both orders on fresh objects.',
         'Trusts irsem; dependence decided on the enumerated grid; completeness of MatchExpr not demanded.', '4 C16'),
})
CHECKS.update({
 'C13': ('exploration', 'bounded exhaustive enumeration with metamorphic oracles (idempotence, all permutations x bracketings, cross-process hash-seed comparison)',
         'Idempotence on a fresh structural copy of every simplified tree of the families; for every multiset of 2..4 operands from a 12-element '
         'alphabet with tie-twins (and pairs differing in one field of one node) and each of + * ^ & |, ALL permutations x ALL binary bracketings + the flat form must simplify identically, also over shared operand objects and below 11 one-hole contexts; the same law over constant-rich operand lists (complement, negation, 1, all-ones, sign bit, half-width masks) at 8/32/64 bits; '
         'every rendering (simplified enumeration, decoded text in both syntaxes, lifted semantics, read sets, machine dumps) is recomputed in '
         'fresh processes under PYTHONHASHSEED 0..3 (thorough 0..7) and compared line by line.',
         'Metamorphic: no external oracle. Seed independence is decided for the enumerated seeds only.', '4 C13'),
 'C06': ('exploration', 'bounded exhaustive enumeration of (expression, binding pattern) pairs against reference substitution under irsem',
         'Every tree of the families x every binding pattern {absent, boundary constants, symbolic expressions incl. cond-of-constants} per '
         'identifier, plus same-address memory cells of 8/16/32 bits read back at 8..64 bits through constant/symbolic/unbound bases, each on a '
         'fresh eval_abs; result compared with reference substitution on all 2^16 valuations (w=8) or the boundary product; all-constant inputs '
         'must fold to the ExprInt the operators define (n-ary included; rotate-through-carry counts 0..31 at 8/16/32 bits; counts wider than the value). Structured bindings: two registers bound to adjacent/overlapping slices of one symbol evaluated several times on ONE machine, and conditions that evaluate to c ? k1 : k2 for every constant pair.',
         'Trusts irsem. Memory bindings only at addresses already in evaluated form (overlap is C07).', '4 C06'),
})
CHECKS.update({
 'C01': ('exploration', 'bounded exhaustive enumeration of the opcode x ModRM x SIB x prefix space against reference decoders',
         'Every string of S_x86 (prefix sets x 4 opcode maps x all 256 opcodes x all 256 ModRM x SIB classes x tails) is decoded by the real '
         'x86mnemo.dis and by GNU objdump on the same padded slot; length, raw bytes and the normal form of the Intel rendering (mnemonic class, '
         'operand kinds, registers, base/index/scale, displacement, segment, immediate, size keyword, branch displacement) are compared; a '
         'difference counts only if llvm-mc does not side with miasmX; a second rendering of the same decoded object must equal the first. Strings rejected by either decoder or carrying a superfluous prefix are skipped. '
         'Quick: 7 prefix sets over the full ModRM x 14 SIB classes + 13 prefix pairs over a reduced ModRM set; thorough: 18 prefix sets x 5 tails.',
         'Trusts GNU objdump 2.40 + llvm-mc 14 and the synonym/normal-form table in mc/x86ref.py. Tail bytes are fixed patterns.', '4 C01'),
 'C17': ('exploration', 'bounded exhaustive enumeration against a hand-written control-flow table and the target formula',
         'Every string of S_x86 both decoders accept: breakflow/splitflow/dstflow against the IA-32 control-flow table (cross-checked per case with '
         'objdump\'s mnemonic), getnextflow = offset + length; every direct relative form x boundary displacements x 20 instruction offsets up to '
         '2^32-3 through a virtual 4 GiB stream (incl. 66, 67 and 66+67 prefixed forms in both orders): getdstflow = offset + length + sext(disp) mod 2^opsize, read again after rendering the instruction in every output format.',
         'Trusts the control-flow table in mc/props/c17.py and objdump for the cross-check.', '4 C17'),
})
CHECKS.update({
 'C10': ('exploration', 'bounded exhaustive enumeration of byte strings (with every truncation and stream offset) and of token sequences against a totality contract',
         'Every string of S_x86 without any filter (plus fwait in front of every x87 opcode x every ModRM), every shorter prefix of every distinct decoded instruction, and decoding from streams at offsets '
         '0/1/7 with and without trailing bytes; every token sequence up to length 3 over 64 tokens, 5 over 12, 7 (thorough 8) over 5, and every '
         'single-token edit of a corpus of valid lines (incl. all bracket productions and constant arithmetic), through asm and asm_att. Contract: None or a renderable instruction with consistent '
         'length/offset bookkeeping; a repeated size prefix consumes exactly one more byte; a list or ValueError; 5 s CPU-time watchdog.',
         'ValueError is taken as the documented assembler error.', '4 C10'),
 'C11': ('exploration', 'bounded exhaustive enumeration of decodable instructions through an independent IR type checker',
         'Every string of S_x86 that miasmX decodes, objdump accepts and whose mnemonic has lifted semantics (incl. 66/67 prefix sets) is lifted; '
         'the result must be a list of well-formed assignments by the rules the property states, checked by a walker that only reads public fields.',
         'Operators other than + - * & | ^ == and the arithmetic lifter operators carry no declared width: comparisons involving them are skipped.', '4 C11'),
 'C18': ('exploration', 'complete enumeration of constrained-bit assignments per class pair (all 2^32 words) + bounded exhaustive word space against llvm-mc',
         'Unambiguity is decided for all 2^32 words: per-field acceptance sets come from the real mask check() methods, every assignment of each '
         'connected component of constrained bits is enumerated for every class pair, witnesses re-checked on the real check(). The structured word '
         'space (64 primary x 2048 low patterns x operand patterns + D-form immediates + all BO x BI + every SPR number + every leading-bit pattern of the branch displacements) is decoded, re-encoded, rendered, '
         're-assembled, and (class, mnemonic) compared with llvm-mc through a reviewed relation table; unclaimed words must not decode.',
         'Trusts llvm-mc 14 and the reviewed table mc/ppc_llvm_pairs.json.', '4 C18'),
})
CHECKS.update({
 'C02': ('exploration', 'bounded exhaustive enumeration of (line, candidate) pairs against reference disassembler and assembler',
         'Lines rendered from structured specs (whole assembler vocabulary x operand-shape alphabet incl. every width boundary immediate, arity 0..2, '
         '+ corpus for 3-operand forms); EVERY candidate of asm(line) is decoded by GNU objdump and its normal form compared with the spec\'s '
         '(GNU as adjudicates spelling conventions, but the VALUE of an immediate is judged against the line only); the AT&T direction feeds binutils\' transliteration to asm_att and compares every candidate.',
         'Trusts GNU objdump/as 2.40 and the normal form of mc/x86ref.py. Shape alphabet, not every displacement.', '4 C02'),
 'C03': ('exploration', 'bounded exhaustive enumeration with a round-trip (metamorphic) oracle; GNU as decides "canonical"',
         '(a) every accepted line x every distinct candidate: dis accepts it, consumes it entirely, and it is among asm(str(dis(b))). (b) every string '
         'of S_x86 that is canonical (GNU as of objdump\'s AT&T text reproduces it, no superfluous prefix) is among asm(str(dis(b))).',
         'Direct branches are excluded from (b) (objdump prints slot-dependent absolute targets).', '4 C03'),
 'C09': ('exploration', 'bounded exhaustive enumeration of decodable strings x 3 renderings against GNU as/objdump and the miasmX parsers',
         'Every distinct decodable string of S_x86 without superfluous prefix: the Intel, AT&T(binutils) and AT&T(objdump) renderings are assembled '
         'by GNU as in the matching mode and must denote the original instruction (normal form); canonical strings must be reproduced by the '
         'matching miasmX parser from the rendering.',
         'Relative branches and absolute numeric memory operands are excluded from the GNU as part, as the property says.', '4 C09'),
 'C19': ('exploration', 'bounded exhaustive enumeration with metamorphic oracle (equality of candidate sets across spellings)',
         'Every accepted line of L_asm x every applicable presentation-only rewrite (thorough: all compatible pairs) must give the identical candidate '
         'set; all six bracket productions (with symbols and constant arithmetic) against the all-inside spelling; both AT&T transliterations by binutils (plain and -M suffix) must give the identical set through asm_att, as must AT&T-side rewrites (spacing, number base, operand order of xchg/test).',
         'No external oracle for Intel spellings; binutils supplies the AT&T text.', '4 C19'),
})
CHECKS.update({
 'C04': ('exploration', 'bounded exhaustive enumeration of (instruction form, initial state) pairs against the host CPU',
         'About 1500 integer-core forms (incl. one register in both positions, esp-addressed stack operands, bit tests with register/immediate offsets on memory, far-pointer loads and mov/push/pop of segment registers over the loadable ring-3 selectors) encoded by GNU as; for each the full product of an 18(+2)-value boundary alphabet over its input locations x all 64 '
         'status-flag assignments for flag-reading forms is executed on the host CPU (native runner) and by evaluating the lifted assignment list under '
         'irsem with parallel assignment; GPRs, es/ds/fs/gs/ss, defined flags, the data window and the control-flow outcome are compared (SDM undefined table masked). '
         'The quick tier caps each form at 3000 states (every k-th element of the product) and is therefore not exhaustive; the thorough tier is.',
         'Trusts the host CPU, the undefined-flag table and irsem. 32-bit values only from the boundary alphabet.', '4 C04'),
 'C07': ('model_checking', 'explicit-state BFS over the real emul_lines/eval_instr with canonical-state de-duplication, every trace replayed against a concrete byte machine',
         'BFS over instruction sequences (alphabet encoded by GNU as; quick: depth 3 over 23 instructions, thorough: depth 3 over 38 and depth 4 over 23; the same search over 7 small interacting alphabets to depth 10 (thorough 12) for accumulating arithmetic/exchanges, 6-8 for push/pop and store/load, 3-4 over byte/word register moves, 2-3 over sub-register logic+shifts with a third sign-bit valuation; canonical state = digest of the pool dump, failing and already-seen states not '
         'expanded) with the invariant "every register, flag and 8/16/32-bit read-back over the touched windows equals the concrete little-endian byte machine '
         'running the same lifted IR" under 2 valuations; ALL store/load histories with 1..2 (thorough 3) stores + 1 load over widths 8/16/32 x offsets 0..7 x '
         'constant/symbolic base, each history in a forked child (a failing 3-store history is attributed to its failing 2-store sub-history); rep string instructions (F3 and F2 forms) with counts 0..3 and at the runaway-guard boundary against the architectural loop.',
         'The concrete machine interprets the same lifted IR under irsem (the lifter itself is C04). Different symbolic bases are assumed not to alias.', '4 C07'),
 'C08': ('exploration', 'bounded exhaustive enumeration of (form, base state, perturbed location) triples on the host CPU',
         'For every form (integer core by mnemonic x operand form, 62 x87 forms, 99 MMX/SSE forms, 38 segment-register forms) x 3 base states, every location of the observed universe (GPRs, flags, es/fs/gs, x87/MMX/SSE registers, and every single byte of the memory operands) is '
         'perturbed in isolation (2 values) on the CPU; a location that changes a written output is a real read and must be in the union of get_r; every '
         'location that changes must be in the union of get_w, and every byte of the data window the processor changes must lie inside a memory destination of get_w evaluated in the base state; every byte whose value alone changes a result must lie inside a memory cell of get_r(mem_read=True) evaluated in the base state (for segment forms a fault caused by the perturbation is a result).',
         'Dependencies are decided on 3 base states x 2 perturbations per location. MXCSR, FIP/FDP/FOP and x87/MMX aliasing are outside the universe.', '4 C08'),
 'C12': ('model_checking', 'explicit-state exploration of API-call histories on the real library (fork per history from a pristine image), pure-function model',
         'ALL histories of length 1..2 (thorough 3 over a 26-call sub-alphabet) over an alphabet of 43 API calls (incl. instruction objects held across calls), plus a wide alphabet of 100 further calls (width-aware lifts under prefix variants, bare-prefix / fragment / rejected assembler lines) as histories of length 1 probed by all 143 calls, run in forked children of a pristine image; after each history every probe '
         'runs in its own grand-child and must equal its pristine result (the model); hidden-state fingerprints give states/transitions and the closure of the '
         'fingerprint set; failures are attributed to their shortest failing sub-history. Plus all ordered pairs of a 269-line assembler alphabet sharing operand text, input immutability over expression trees, instruction objects, the lifter\'s address argument and '
         'machines, and 11 parser-table cache configurations (incl. a stale table generated by the real PLY from a mutated grammar), each in a fresh process.',
         'The fingerprint covers the instruction/register tables, memo flags on module-level expressions and sys.path. Depth 2/3 only.', '4 C12'),
})
PENDING = {}

def main():
    checks, na = [], []
    for p in props:
        i = p['id']
        if i in CHECKS:
            cat, tech, text, note, ref = CHECKS[i]
            checks.append({
                'property_id': i,
                'quick_cmd': './check %s --tier quick' % i,
                'thorough_cmd': './check %s --tier thorough' % i,
                'evidence_file': '/verif/evidence/%s.json' % i,
                'replay_cmd_template': './check %s --replay {path}' % i,
                'engine': 'mc',
                'level_claimed': {'category': cat, 'text': text, 'design_ref': ref},
                'level_note': note,
                'technique': tech,
            })
        else:
            na.append({'property_id': i, 'reason': PENDING.get(i, 'check not built yet in this session (planned in DESIGN.md section 4); not claimed until it runs clean')})
    m = {
        'version': 1,
        'setup_cmd': './setup.sh',
        'hooks': {'guard': 'MIASMX_VERIF', 'enable': 'no source hooks are needed: checks import /repo\'s working tree directly (sys.path[0]=/repo) with MIASMX_VERIF=1 exported',
                  'baseline_off_cmd': 'cd /repo && /venv/bin/python -m pytest -q -p no:cacheprovider --timeout=900',
                  'source_commits': [], 'add_only': True},
        'engines': [{'name': 'mc', 'path': '/verif/mc', 'serves_properties': sorted(CHECKS),
                     'kind_free_text': 'hand-written bounded exhaustive explorer (sharded enumeration / explicit-state BFS over the real code) with independent reference models'}],
        'checks': checks,
        'not_applicable': na,
        'notes': 'See DESIGN.md. Known genuine defects are listed in known_findings.json; seeded property-breaking changes under seeded/.',
    }
    with open(os.path.join(V, 'MANIFEST.json'), 'w') as f:
        json.dump(m, f, indent=1)
    try:
        import jsonschema
        jsonschema.validate(m, json.load(open('/root/.vp/MANIFEST.schema.json')))
        print('MANIFEST.json valid: %d checks, %d not_applicable' % (len(checks), len(na)))
    except ImportError:
        print('written (jsonschema not available to validate)')

main()
