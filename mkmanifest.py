#!/usr/bin/env python3
"""Regenerates MANIFEST.json from the table below (kept in one place so it stays valid)."""
import json, os
V = os.path.dirname(os.path.abspath(__file__))
props = [json.loads(l) for l in open(os.path.join(V, 'properties.jsonl'))]

# id -> (category, technique, text, note, design_ref)
CHECKS = {
 'C14': ('exploration', 'bounded exhaustive enumeration against a reference model (Python integers mod 2^n)',
         'Every operator x every ordered pair of the 11 fixed-width types x all 2^16 value pairs at 8 bits and the full '
         'product of the boundary sets at every other width pair, direct and reflected, is executed on the real modint '
         'classes and compared with exact integer arithmetic; complete inside the stated alphabet, nothing sampled.',
         'Trusts Python integer arithmetic. Values outside the 8-bit and boundary alphabets are not covered.', '4 C14'),
}
PENDING = {}

def main():
    checks, na = [], []
    for p in props:
        i = p['id']
        if i in CHECKS:
            cat, tech, text, note, ref = CHECKS[i]
            checks.append({
                'property_id': i,
                'quick_cmd': './check %s --tier quick' % i,
                'thorough_cmd': './check %s --tier thorough' % i,
                'evidence_file': '/verif/evidence/%s.json' % i,
                'replay_cmd_template': './check %s --replay {path}' % i,
                'engine': 'mc',
                'level_claimed': {'category': cat, 'text': text, 'design_ref': ref},
                'level_note': note,
                'technique': tech,
            })
        else:
            na.append({'property_id': i, 'reason': PENDING.get(i, 'check not built yet in this session (planned in DESIGN.md section 4); not claimed until it runs clean')})
    m = {
        'version': 1,
        'setup_cmd': './setup.sh',
        'hooks': {'guard': 'MIASMX_VERIF', 'enable': 'no source hooks are needed: checks import /repo\'s working tree directly (sys.path[0]=/repo) with MIASMX_VERIF=1 exported',
                  'baseline_off_cmd': 'cd /repo && /venv/bin/python -m pytest -q -p no:cacheprovider --timeout=900',
                  'source_commits': [], 'add_only': True},
        'engines': [{'name': 'mc', 'path': '/verif/mc', 'serves_properties': sorted(CHECKS),
                     'kind_free_text': 'hand-written bounded exhaustive explorer (sharded enumeration / explicit-state BFS over the real code) with independent reference models'}],
        'checks': checks,
        'not_applicable': na,
        'notes': 'See DESIGN.md. Known genuine defects are listed in known_findings.json; seeded property-breaking changes under seeded/.',
    }
    with open(os.path.join(V, 'MANIFEST.json'), 'w') as f:
        json.dump(m, f, indent=1)
    try:
        import jsonschema
        jsonschema.validate(m, json.load(open('/root/.vp/MANIFEST.schema.json')))
        print('MANIFEST.json valid: %d checks, %d not_applicable' % (len(checks), len(na)))
    except ImportError:
        print('written (jsonschema not available to validate)')

main()
